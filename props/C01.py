"""C01 -- interface files parse to a tree that mirrors the source."""
from props import parser_scope as psc, grammar

KEYS = []
MODULES = ['contracts.common', 'contracts.names', 'contracts.pybind', 'contracts.parser']


def replay(obj):
    return psc.replay_parser(obj)


def run(rep, args):
    rep.level = 'other'
    try:
        import contracts.parser  # noqa
        from contracts.parser import C01_KEYS
        if C01_KEYS:
            rep.run_proofs(C01_KEYS, MODULES, schema='SCHEMA', invs='')
    except ImportError:
        pass
    pr = rep.classify(rebaseline=args.rebaseline)
    from props import wf_scope
    if not wf_scope.check_wf(rep, False, 60 if rep.tier == 'quick' else 600):
        pr['demoted'].append(dict(key='(all proofs)', reason='the typed-field schema assumed by the proofs does not hold on the parse trees of the bounded scope',
                                  was_proved=True, changed=True))
    for name, ok, detail in grammar.checks():
        if name == 'terminals spanning two tokens':
            rep.structural.append((name, True, detail))
            continue
        rep.structural.append((name, bool(ok), detail))
        if not ok:
            rep.violation('struct:' + name[:50], 'grammar structure: %s: %s' % (name, detail), dict(obligation=name, detail=str(detail)), concrete=False)
    psc.round_trip(rep, 400 if rep.tier == 'quick' else 6000)
    from props.pyprops import report_regressions
    report_regressions(rep, pr)
    rep.bounded['rule'] = ('seeded random modules from the reference grammar gen/iface.py (namespaces depth<=3, classes with all member kinds, templates '
                           'with instantiation lists, typedefs, forward declarations, includes, enums, variables, functions, type expressions of depth<=3 '
                           'with every qualifier); the real parse tree is abstracted and compared with the generated abstract tree (kinds, names, order, '
                           'nesting, parent links, types, template lists, defaults, bases, flags). distinct = distinct accepted texts')
    rep.explanation = ('the repository-side node constructors are under contract where the engine reaches them; the pyparsing matcher is third-party and '
                       'its behaviour is covered by the bounded round trip; the results-name dataflow and flag/terminal table of the live grammar graph '
                       'are checked exactly (structural).')
    rep.assumptions += ['pyparsing matching semantics (sequence, longest-match alternation, repetition, results naming) is assumed; only the bounded round trip exercises it']
