"""C12 -- layout and comments never change the result."""
from props import parser_scope as psc, grammar


def replay(obj):
    return psc.replay_parser(obj)


def run(rep, args):
    rep.level = 'other'
    rep.classify(rebaseline=args.rebaseline)
    for name, ok, detail in grammar.checks():
        if name == 'terminals spanning two tokens':
            known = {'()', '[]', 'enum class', 'enum struct', 'std::', 'unsigned char'}
            extra = sorted(set(detail) - known)
            rep.structural.append((name, not extra, detail))
            if extra:
                rep.violation('struct:two-token-terminal', 'grammar terminal(s) %s span two tokens / embed white space' % extra,
                              dict(obligation=name, terminals=extra), concrete=False)
            continue
        if 'skip' in name or 'comment' in name:
            rep.structural.append((name, bool(ok), detail))
            if not ok:
                rep.violation('struct:' + name[:50], 'grammar structure: %s: %s' % (name, detail), dict(obligation=name, detail=str(detail)), concrete=False)
    n, k = (120, 4) if rep.tier == 'quick' else (600, 6)
    psc.relayout(rep, n, k, outputs=True)
    rep.bounded['rule'] = ('for each seeded random module its token stream (default values and include paths are single tokens) is re-laid out k times: '
                           'at each token gap, with probability 0.35, one of blank / newline / tab / block comment containing braces, semicolons, keywords / '
                           'line comment / comment with quotes is inserted; parse trees of all layouts must be equal and, for two layouts per module, the '
                           'pybind and MATLAB outputs byte-identical. The two-token keywords of the known finding (unsigned char, enum class/struct) are kept glued.')
    rep.explanation = ('comment / white-space skipping is a property of the third-party matcher (assumed) applied to the grammar graph built by the repository: '
                       'that every composite element carries the comment-ignore expression and skips white space is checked exactly on the live graph; '
                       'the generators read only the parse tree, so equal trees give equal wrappers (also checked on outputs).')
    rep.assumptions += ['pyparsing skips white space and ignorable expressions before every terminal']
