"""C14 -- generation is a pure, repeatable function of inputs and options."""
import ast
import hashlib
import os
import shutil
import subprocess
import sys
import tempfile

from pyvc.extract import Repo, REPO

TEXT_A = """namespace gtsam {
class Pose {
  Pose();
  void serialize() const;
  double x;
};
template<T = {double, gtsam::Pose}>
class Box {
  Box(const T& t);
  void serialize() const;
  T get() const;
};
}
"""
TEXT_B = """namespace other {
class Item {
  Item(int n = 3);
  void serialize() const;
  static other::Item Make(string name = "caf\\u00e9");
};
double scale(double v);
}
"""

# a serializable instantiation whose C++ name contains a comma (its export goes through a typedef alias)
TEXT_C = """namespace demo {
template<K = {double, string}, V = {int}>
class Pair {
  Pair(const K& k, const V& v);
  void serialize() const;
  K first() const;
};
}
"""

EFFECT_NAMES = {'open', 'print', 'input', 'exec', 'eval', 'id', 'hash', 'set', 'frozenset', 'vars', 'globals', 'locals'}
EFFECT_MODULES = {'os', 'osp', 'sys', 'time', 'random', 'datetime', 'uuid', 'tempfile', 'shutil', 'subprocess', 'Path', 'locale', 'getpass', 'socket'}
ALLOWED = {
    # function -> effects it may have
    'PybindWrapper.wrap_submodule': {'open', 'Path'},
    'PybindWrapper.wrap': {'open', 'Path'},
    'MatlabWrapper.__init__': {'open', 'osp'},
    'MatlabWrapper.generate_content': {'open', 'osp', 'os'},
    'MatlabWrapper.wrap': {'open'},
    'XMLDocParser.parse_xml': {'print'},
    'XMLDocParser.get_member_defs': {'Path'},
    'XMLDocParser.print_if_verbose': {'print'},
    'pybind_wrap:main': {'open'},
}
NO_ENCODING_KNOWN = set()


def effects(rep):
    repo = Repo()
    found = {}
    noenc = []
    for key, fi in repo.functions.items():
        if fi.path.startswith('gtwrap/interface_parser') and False:
            continue
        eff = set()
        for n in ast.walk(fi.node):
            if isinstance(n, ast.Call):
                f = n.func
                if isinstance(f, ast.Name) and f.id in EFFECT_NAMES:
                    eff.add(f.id)
                    if f.id == 'open' and not any(k.arg == 'encoding' for k in n.keywords):
                        noenc.append(key)
                root = f
                while isinstance(root, ast.Attribute):
                    root = root.value
                if isinstance(root, ast.Name) and root.id in EFFECT_MODULES and isinstance(f, ast.Attribute):
                    eff.add(root.id)
                if isinstance(f, ast.Name) and f.id == 'Path':
                    eff.add('Path')
            if isinstance(n, (ast.For, ast.comprehension)):
                it = n.iter
                if isinstance(it, ast.Call) and isinstance(it.func, ast.Name) and it.func.id in ('set', 'frozenset'):
                    eff.add('set-iteration')
                if isinstance(it, (ast.Set, ast.SetComp)):
                    eff.add('set-iteration')
            if isinstance(n, ast.Attribute) and isinstance(n.value, ast.Name) and n.value.id == 'os' and n.attr in ('environ', 'getcwd', 'getenv'):
                eff.add('os.' + n.attr)
        eff -= {'sys'} if key.startswith(('pybind_wrap', 'matlab_wrap')) or 'xml_parser' in fi.path else set()
        if eff:
            found[key] = eff
    bad = {}
    for key, eff in found.items():
        extra = eff - ALLOWED.get(key, set()) - ({'print'} if 'xml_parser' in repo.functions[key].path else set())
        if key.split(':')[0] in ('matlab_wrap',):
            continue
        if extra:
            bad[key] = sorted(extra)
    ok = not bad
    rep.structural.append(('effects of every function are within its declared effect set (I/O, environment, clock, random, id/hash, set iteration)', ok, bad))
    if bad:
        rep.violation('struct:effects', 'undeclared effects: %s' % bad, dict(obligation='effect contracts', undeclared=str(bad)), concrete=False)
    new_noenc = sorted(set(noenc) - NO_ENCODING_KNOWN)
    rep.structural.append(('every open() names an explicit encoding (locale independence)', not new_noenc,
                           dict(new=new_noenc, known=sorted(set(noenc) & NO_ENCODING_KNOWN))))
    if new_noenc:
        rep.violation('struct:open-without-encoding', 'open() without explicit encoding in %s' % new_noenc,
                      dict(obligation='explicit encoding', functions=new_noenc), concrete=False)
    return noenc


DRIVER = r'''
import sys, os, json, hashlib
sys.path.insert(0, sys.argv[1])
mode, out = sys.argv[2], sys.argv[3]
from gtwrap.pybind_wrapper import PybindWrapper
srcs = json.loads(sys.argv[4])
if mode == 'pybind':
    w = PybindWrapper(module_name='m', top_module_namespaces=[''], ignore_classes=[''], use_boost_serialization=True,
                      module_template='{module_def}\n{includes}\n{boost_class_export}\n{wrapped_namespace}\n{submodules}\n{submodules_init}\n')
    w.wrap(srcs, os.path.join(out, 'main.cpp'))
else:
    sys.path.insert(0, '/verif')
    from props.matlab_e2e import make_wrapper
    make_wrapper('m', boost=True).wrap(srcs, out)
'''


def tree_hash(d):
    h = {}
    for root, _, files in os.walk(d):
        for f in files:
            p = os.path.join(root, f)
            with open(p, 'rb') as fh:
                h[os.path.relpath(p, d)] = hashlib.sha256(fh.read()).hexdigest()
    return h


def subprocess_runs(rep):
    repo = os.environ.get('VERIF_REPO', REPO)
    base = tempfile.mkdtemp(prefix='c14_')
    try:
        a, b = os.path.join(base, 'a.i'), os.path.join(base, 'b.i')
        with open(a, 'w', encoding='utf-8') as f:
            f.write(TEXT_A)
        with open(b, 'w', encoding='utf-8') as f:
            f.write(TEXT_B.replace('caf\\u00e9', 'caf\u00e9'))
        drv = os.path.join(base, 'drv.py')
        with open(drv, 'w') as f:
            f.write(DRIVER)
        ref = {}
        for mode in ('pybind', 'matlab'):
            for cfg, env, cwd in [('seed0', {'PYTHONHASHSEED': '0'}, base), ('seed1', {'PYTHONHASHSEED': '1'}, base),
                                  ('seed7-othercwd', {'PYTHONHASHSEED': '7'}, '/'), ('localeC', {'LC_ALL': 'C', 'LANG': 'C'}, base)]:
                out = os.path.join(base, 'out_%s_%s' % (mode, cfg))
                os.makedirs(out)
                before = set(os.listdir(base))
                e = dict(os.environ, **env)
                p = subprocess.run([sys.executable, drv, repo, mode, out, __import__('json').dumps([a] if mode == 'pybind' else [a, b])],
                                   cwd=cwd, env=e, capture_output=True, text=True)
                rep.bounded['evaluations'] += 1
                if p.returncode != 0:
                    rep.crashes.append('C14 driver failed (%s %s): %s' % (mode, cfg, p.stderr[-400:]))
                    continue
                h = tree_hash(out)
                rep.bounded['distinct'].add((mode, cfg))
                stray = set(os.listdir(base)) - before
                if stray:
                    rep.violation('files:stray-output', '%s run wrote outside its output: %s' % (mode, sorted(stray)),
                                  dict(kind='c14', mode=mode, config=cfg, stray=sorted(stray)))
                if mode not in ref:
                    ref[mode] = h
                elif h != ref[mode]:
                    diff = sorted(k for k in set(h) | set(ref[mode]) if h.get(k) != ref[mode].get(k))
                    rep.violation('repeat:%s:%s' % (mode, cfg), '%s output differs under %s: %s' % (mode, cfg, diff[:5]),
                                  dict(kind='c14', mode=mode, config=cfg, files=diff))
        # MATLAB: a second run into a directory that holds the output of a different input equals a clean run
        from props.matlab_e2e import make_wrapper
        d1, d2 = os.path.join(base, 'reuse'), os.path.join(base, 'clean')
        ta = "namespace g { class Gadget { Gadget(); void scale(double f); }; }\n"
        tb = "namespace g { class Gadget { Gadget(); void shift(double f); }; }\n"
        fa, fb = os.path.join(base, 'ga.i'), os.path.join(base, 'gb.i')
        open(fa, 'w').write(ta)
        open(fb, 'w').write(tb)
        make_wrapper('m').wrap([fa], d1)
        make_wrapper('m').wrap([fb], d1)
        make_wrapper('m').wrap([fb], d2)
        rep.bounded['evaluations'] += 1
        h1, h2 = tree_hash(d1), tree_hash(d2)
        stale = sorted(k for k in h2 if h1.get(k) != h2[k])
        if stale:
            rep.violation('repeat:matlab:previous-run', 'output depends on files left by a previous run: %s' % stale[:4],
                          dict(kind='c14', mode='matlab', config='previous-run', files=stale))
    finally:
        shutil.rmtree(base, ignore_errors=True)


def reuse(rep):
    """one wrapper object wrapping several files == fresh wrappers (pybind; serialization accumulators reset)"""
    from gtwrap.pybind_wrapper import PybindWrapper
    tpl = '{module_def}\n{includes}\n{boost_class_export}\n{wrapped_namespace}\n'

    def fresh():
        return PybindWrapper(module_name='m', top_module_namespaces=[''], ignore_classes=[''], use_boost_serialization=True, module_template=tpl)
    seqs = [[TEXT_A, TEXT_B, TEXT_A], [TEXT_B, TEXT_A], [TEXT_A, TEXT_A], [TEXT_C, TEXT_C], [TEXT_C, TEXT_A, TEXT_C], [TEXT_A, TEXT_C, TEXT_B, TEXT_C]]
    for seq in seqs:
        w = fresh()
        for i, t in enumerate(seq):
            rep.bounded['evaluations'] += 1
            got = w.wrap_file(t, module_name='m%d' % i)
            exp = fresh().wrap_file(t, module_name='m%d' % i)
            rep.bounded['distinct'].add(('reuse', tuple(hash(x) for x in seq[:i + 1])))
            if got != exp:
                rep.violation('reuse:pybind-wrap_file', 'file %d of a sequence wrapped by one wrapper object differs from a fresh wrapper' % i,
                              dict(kind='c14-reuse', sequence=seq, index=i))
    # submodule + main with one wrapper, written to disk
    base = tempfile.mkdtemp(prefix='c14r_')
    cwd = os.getcwd()
    try:
        os.chdir(base)
        for nm, t in (('main.i', TEXT_A), ('part.i', TEXT_B)):
            with open(nm, 'w', encoding='utf-8') as f:
                f.write(t)
        w = fresh()
        w.wrap(['main.i', 'part.i'], 'main.cpp')
        w.wrap_submodule('part.i')
        rep.bounded['evaluations'] += 1
        exp = fresh().wrap_file(TEXT_B, module_name='part')
        got = open('part.cpp', encoding='utf-8').read()
        if got != exp:
            rep.violation('reuse:pybind-submodule-after-main', 'wrap_submodule after wrap on one wrapper object differs from wrapping the part alone',
                          dict(kind='c14-reuse', sequence=[TEXT_A, TEXT_B], index=1))
    finally:
        os.chdir(cwd)
        shutil.rmtree(base, ignore_errors=True)


def replay(obj):
    print('replay: re-run `./check C14` (multi-process / multi-call scenario):', obj.get('what'))
    return 1


def run(rep, args):
    rep.level = 'other'
    rep.classify(rebaseline=args.rebaseline)
    noenc = effects(rep)
    if set(noenc) & NO_ENCODING_KNOWN:
        k = rep.is_known('C14-open-without-encoding')
        if k:
            rep.known_seen.append(k)
    reuse(rep)
    subprocess_runs(rep)
    rep.bounded['rule'] = ('fixed inputs (classes with serialization, templates, namespaces, non-ASCII default) wrapped by both generators in child '
                           'processes under PYTHONHASHSEED 0/1/7, another working directory and LC_ALL=C: all output trees must be byte-identical and no file '
                           'may appear outside the output directory; one wrapper object wrapping sequences of files must equal fresh wrappers; a MATLAB run into '
                           'a directory holding another input\'s output must equal a clean run. distinct = distinct (generator, configuration) pairs')
    rep.explanation = ('effect contracts (exact, syntactic): the only functions with I/O, environment, clock, random, id/hash or set-iteration effects are the '
                       'declared entry points, and every open() but the listed known ones names an encoding; repeatability across processes, hash seeds, working '
                       'directories, locale, earlier calls and earlier runs is exercised on a bounded set of scenarios. Concurrent schedules are not explored '
                       '(this technique family is silent on them): only the sequential frame argument is made.')
    rep.assumptions += ['interleavings of concurrent wrapper processes are not explored']
