"""C13 -- relational bounded check on real generator output (see props/relational.py)."""
from props import relational as rel, pyprops

PID = 'C13'


def replay(obj):
    return rel.replay(obj)


def run(rep, args):
    rep.level = 'other'
    pr = pyprops.prove(rep, PID, args)
    n = 200 if rep.tier == 'quick' else 3000
    (rel.c13 if PID == 'C13' else rel.c15)(rep, n)
    pyprops.report_regressions(rep, pr)
    rep.bounded['rule'] = 'for seeded sanitised modules with a template whose first parameter lists >=2 instantiations: (1) restricting the list to its first entry leaves the bindings of that instantiation unchanged, (2) reversing the list only permutes bindings, (3) renaming the parameter to an unused identifier leaves the generated text byte-identical, (4) wrapping the same text twice gives identical text. distinct = distinct texts'
    rep.explanation = 'independence of instantiations is decided on the bounded scope by comparing real outputs of related inputs; dropping a deepcopy or matching parameters by substring shows up as a difference between the related runs.'
    rep.assumptions += ['bounded relational check only: the ownership / frame proof of the instantiator is not built (instantiate_type mutates an aliased deep copy)']
