"""Bounded checks on the real parser: round trip (C01), re-layout invariance (C12), corruption handling (C07)."""
import collections
import random

from gen.iface import Gen, unparse, abs_module, canon_expected
from gen import layout


def first_diff(a, b, path=''):
    if a == b:
        return None
    if isinstance(a, tuple) and isinstance(b, tuple) and len(a) == len(b):
        for i, (x, y) in enumerate(zip(a, b)):
            d = first_diff(x, y, path + '/%d' % i)
            if d:
                return d
    return (path, a, b)


def modules(n, seed):
    for i in range(n):
        yield Gen(seed * 104729 + i, depth=2 + (i % 2)).module(ndecl=3 + i % 3)


def round_trip(rep, n):
    import gtwrap.interface_parser as ip
    for m in modules(n, rep.seed):
        text = unparse(m)
        rep.bounded['evaluations'] += 1
        try:
            tree = ip.Module.parseString(text)
        except Exception as e:
            rep.violation('rt:rejects-valid:%s' % type(e).__name__, 'well-formed interface text is rejected: %s' % str(e)[:200],
                          dict(kind='parse-roundtrip', input=text, message=str(e)))
            continue
        rep.bounded['distinct'].add(hash(text))
        got, exp = abs_module(tree), canon_expected(m)
        if len(rep.bounded['samples']) < 2:
            rep.bounded['samples'].append(dict(input=text[:300]))
        d = first_diff(got, exp)
        if d:
            rep.violation('rt:tree-differs:%s' % str(d[1])[:30], 'parse tree differs from the source at %s: parsed %r, written %r' % d,
                          dict(kind='parse-roundtrip', input=text, path=d[0], parsed=repr(d[1]), written=repr(d[2])))
        # parent links / nesting
        bad = parent_links(tree)
        if bad:
            rep.violation('rt:parent-link', bad, dict(kind='parse-roundtrip', input=text, message=bad))


def parent_links(ns, path=()):
    import gtwrap.interface_parser as ip
    for c in ns.content:
        if getattr(c, 'parent', None) is not ns:
            return 'declaration %r is not attached to its enclosing namespace %r' % (getattr(c, 'name', c), ns.name)
        if isinstance(c, ip.Namespace):
            r = parent_links(c, path + (c.name,))
            if r:
                return r
        if isinstance(c, ip.Class):
            for grp in (c.ctors, c.methods, c.static_methods, c.properties, c.dunder_methods):
                for m in grp:
                    if getattr(m, 'parent', None) is not c:
                        return 'member %r of class %s is attached to %r' % (getattr(m, 'name', m), c.name, getattr(m, 'parent', None))
    return None


def relayout(rep, n, k, outputs=False):
    import gtwrap.interface_parser as ip
    for m in modules(n, rep.seed + 1):
        toks = layout.tokens(m)
        rnd = random.Random(rep.seed * 31 + len(toks))
        ref = None
        ref_out = None
        for j, text in enumerate(layout.relayouts(toks, rnd, k)):
            rep.bounded['evaluations'] += 1
            try:
                tree = ip.Module.parseString(text)
            except Exception as e:
                if ref is not None:
                    rep.violation('layout:rejected', 're-layout of an accepted file is rejected: %s' % str(e)[:160],
                                  dict(kind='relayout', input=text, message=str(e)))
                break
            a = abs_module(tree)
            rep.bounded['distinct'].add(hash(text))
            if ref is None:
                ref = a
                ref_text = text
            elif a != ref:
                d = first_diff(a, ref)
                rep.violation('layout:tree-differs', 're-layout changes the parse result at %s: %r vs %r' % d,
                              dict(kind='relayout', input=text, reference=ref_text))
            if outputs and j <= 1:
                o = wrappers(text)
                if ref_out is None:
                    ref_out = o
                elif o != ref_out and o is not None and ref_out is not None:
                    rep.violation('layout:wrapper-differs', 're-layout changes the generated wrappers',
                                  dict(kind='relayout', input=text, reference=ref_text))
        if len(rep.bounded['samples']) < 2 and ref is not None:
            rep.bounded['samples'].append(dict(relayout=text[:300]))


def wrappers(text):
    from props.pybind_scope import generate_pybind
    from props.matlab_e2e import generate
    try:
        py = generate_pybind(text)
    except Exception:
        py = None
    try:
        ml = sorted(generate(text)[0].items())
    except Exception:
        ml = None
    return (py, ml)


def corruption(rep, n, k):
    """every token-level corruption is either rejected or fully accounted for in the parse tree"""
    import gtwrap.interface_parser as ip
    kinds = collections.Counter()
    for m in modules(n, rep.seed + 2):
        toks = layout.tokens(m)
        rnd = random.Random(rep.seed * 17 + len(toks))
        for kind, text, ctoks in layout.corruptions(toks, rnd, k):
            rep.bounded['evaluations'] += 1
            try:
                tree = ip.Module.parseString(text)
            except Exception:
                kinds['rejected'] += 1
                rep.bounded['distinct'].add(hash(text))
                continue
            kinds['accepted'] += 1
            if kind == 'misspell-ctor':
                rep.violation('corrupt:misspelled-constructor-accepted', 'a constructor whose name differs from its class is accepted: %r' % text[:200],
                              dict(kind='corruption', input=text, corruption=kind))
                continue
            # accepted: the tree must account for every token: re-rendering it gives the same token stream
            try:
                again = _chars(unparse(_as_generated(abs_module(tree))))
            except Exception as e:
                continue
            ctoks = _chars(text)
            if collections.Counter(again) != collections.Counter(ctoks):
                rep.violation('corrupt:token-lost:%s' % kind, 'corrupted input (%s) is accepted but tokens are not accounted for: %r vs %r'
                              % (kind, ''.join(_short_diff(ctoks, again)[0]), ''.join(_short_diff(ctoks, again)[1])),
                              dict(kind='corruption', input=text, corruption=kind))
    rep.bounded['corruption_outcomes'] = dict(kinds)


def _chars(text):
    """non-blank characters with the spellings the tree does not keep normalised away (enum class/struct, std::pair)"""
    import re
    t = re.sub(r'\benum\s+(class|struct)\b', 'enum', text)
    t = re.sub(r'\bstd\s*::\s*pair\b', 'pair', t)
    return [c for c in t if not c.isspace()]


def _norm(toks):
    out = []
    for t in toks:
        if t in ('enum', 'class', 'struct') and out and out[-1] == 'enum':
            continue
        out.append(t)
    return [t for t in out if t not in ('std',) and not (t == 'pair' and False)]


def _short_diff(a, b):
    ca, cb = collections.Counter(a), collections.Counter(b)
    return sorted((ca - cb).elements())[:8], sorted((cb - ca).elements())[:8]


def _as_generated(absm):
    """abstract form read from a tree -> generator form (enum kind restored to plain `enum`)"""
    def fix(d):
        if d[0] == 'ns':
            return ('ns', d[1], tuple(fix(c) for c in d[2]))
        if d[0] == 'enum':
            return ('enum', d[1], 'enum', d[3])
        if d[0] == 'class':
            return d[:5] + (tuple(('enum', m[1], 'enum', m[3]) if m[0] == 'enum' else m for m in d[5]),)
        return d
    return tuple(fix(d) for d in absm)


def replay_parser(obj):
    import gtwrap.interface_parser as ip
    text = obj['input']
    try:
        tree = ip.Module.parseString(text)
    except Exception as e:
        print('observed: rejected:', e)
        return 1 if obj.get('kind') in ('parse-roundtrip', 'relayout') else 0
    if obj.get('kind') == 'relayout':
        ref = abs_module(ip.Module.parseString(obj['reference']))
        a = abs_module(tree)
        if a != ref:
            print('observed: trees differ:', first_diff(a, ref))
            return 1
        return 0
    print('observed: accepted; tree =', abs_module(tree))
    return 1
