"""C07 -- input is either fully understood or loudly rejected, never half-used."""
import ast
import os
import shutil
import tempfile

from props import parser_scope as psc, grammar


def replay(obj):
    if obj.get('kind') == 'no-output-on-failure':
        bad = failing_run(obj['input'], obj['entry'])
        print('observed:', bad)
        return 1 if bad else 0
    return psc.replay_parser(obj)


def write_order(rep):
    """structural: in every entry point, no file is opened for writing before the last call that can raise a
    parse / validation error (Module.parseString, instantiate_namespace, wrap_file, wrap_namespace, generate_wrapper)"""
    from pyvc.extract import Repo
    repo = Repo()
    RAISERS = {'parseString', 'instantiate_namespace', 'wrap_file', 'wrap_namespace', 'generate_wrapper'}
    for key in ('PybindWrapper.wrap', 'PybindWrapper.wrap_submodule', 'MatlabWrapper.wrap'):
        fi = repo.functions[key]
        events = []
        for n in ast.walk(fi.node):
            if isinstance(n, ast.Call):
                f = n.func
                name = f.attr if isinstance(f, ast.Attribute) else getattr(f, 'id', None)
                if name in RAISERS:
                    events.append((n.lineno, n.col_offset, 'raise', name))
                if name == 'open':
                    mode = None
                    if len(n.args) > 1 and isinstance(n.args[1], ast.Constant):
                        mode = n.args[1].value
                    for kw in n.keywords:
                        if kw.arg == 'mode' and isinstance(kw.value, ast.Constant):
                            mode = kw.value.value
                    if mode and ('w' in mode or 'a' in mode):
                        events.append((n.lineno, n.col_offset, 'write', 'open'))
                if name in ('generate_content', 'makedirs', 'mkdir'):
                    events.append((n.lineno, n.col_offset, 'write', name))
        # `with open(..., "w")` must not enclose a raiser
        enclosed = []
        for n in ast.walk(fi.node):
            if isinstance(n, ast.With):
                for it in n.items:
                    ce = it.context_expr
                    if isinstance(ce, ast.Call) and getattr(ce.func, 'id', None) == 'open' and len(ce.args) > 1 and \
                            isinstance(ce.args[1], ast.Constant) and 'w' in str(ce.args[1].value):
                        for q in ast.walk(n):
                            if isinstance(q, ast.Call):
                                nm = q.func.attr if isinstance(q.func, ast.Attribute) else getattr(q.func, 'id', None)
                                if nm in RAISERS:
                                    enclosed.append(nm)
        events.sort()
        first_write = min([e[0] for e in events if e[2] == 'write'] or [10 ** 9])
        late = [e for e in events if e[2] == 'raise' and e[0] > first_write]
        ok = not late and not enclosed
        rep.structural.append(('%s: no write before the last parse/validation step' % key, ok, dict(late=late, enclosed=enclosed)))
        if not ok:
            rep.violation('struct:write-before-validation:' + key, '%s opens an output for writing before input validation finished' % key,
                          dict(obligation='write ordering', function=key, late=str(late), enclosed=enclosed), concrete=False)


BAD_INPUTS = ['class A { A(); void f(;', 'class A { A(); }; }', 'class Foo { Fooo(int x); };', 'namespace n { class B {}; ',
              'class A { A(); }; stray']


def failing_run(text, entry):
    """run an entry point on a rejected input in a scratch dir holding earlier outputs; -> description of any change"""
    d = tempfile.mkdtemp(prefix='c07_')
    cwd = os.getcwd()
    try:
        os.chdir(d)
        src = os.path.join(d, 'bad.i')
        with open(src, 'w') as f:
            f.write(text)
        out = os.path.join(d, 'out')
        os.makedirs(out)
        for name in ('bad.cpp', os.path.join('out', 'bad.cpp'), os.path.join('out', 'm_wrapper.cpp'), os.path.join('out', 'A.m')):
            with open(os.path.join(d, name), 'w') as f:
                f.write('previous output\n')
        before = snapshot(d)
        raised = False
        try:
            if entry == 'pybind.wrap':
                from gtwrap.pybind_wrapper import PybindWrapper
                PybindWrapper(module_name='m', top_module_namespaces=[''], ignore_classes=[''], module_template='{wrapped_namespace}') \
                    .wrap([src], os.path.join(out, 'bad.cpp'))
            elif entry == 'pybind.wrap_submodule':
                from gtwrap.pybind_wrapper import PybindWrapper
                PybindWrapper(module_name='m', top_module_namespaces=[''], ignore_classes=[''], module_template='{wrapped_namespace}') \
                    .wrap_submodule(src)
            else:
                from props.matlab_e2e import make_wrapper
                make_wrapper('m').wrap([src], out)
        except BaseException:
            raised = True
        after = snapshot(d)
        if not raised:
            return 'the run did not fail on a malformed input'
        if before != after:
            ch = sorted(set(before.items()) ^ set(after.items()))
            return 'a failing run changed the output tree: %s' % [c[0] for c in ch][:6]
        return None
    finally:
        os.chdir(cwd)
        shutil.rmtree(d, ignore_errors=True)


def snapshot(d):
    out = {}
    for root, dirs, files in os.walk(d):
        for f in files:
            p = os.path.join(root, f)
            with open(p, 'rb') as fh:
                out[os.path.relpath(p, d)] = fh.read()
        for x in dirs:
            out[os.path.relpath(os.path.join(root, x), d) + '/'] = b''
    return out


def run(rep, args):
    rep.level = 'other'
    # the validating constructors: an accepted class has only constructors carrying its name; an accepted operator is unary +/- or binary
    rep.run_proofs(['Class.__init__', 'Operator.__init__'], ['contracts.common', 'contracts.names', 'contracts.pybind', 'contracts.parser'],
                   schema='SCHEMA', invs='')
    pr = rep.classify(rebaseline=args.rebaseline)
    for name, ok, detail in grammar.checks():
        if 'StringEnd' in name or 'results name' in name:
            rep.structural.append((name, bool(ok), detail))
            if not ok:
                rep.violation('struct:' + name[:50], 'grammar structure: %s: %s' % (name, detail), dict(obligation=name, detail=str(detail)), concrete=False)
    write_order(rep)
    for entry in ('pybind.wrap', 'pybind.wrap_submodule', 'matlab.wrap'):
        for text in BAD_INPUTS:
            rep.bounded['evaluations'] += 1
            bad = failing_run(text, entry)
            rep.bounded['distinct'].add(hash((entry, text)))
            if bad:
                rep.violation('fail:%s:%s' % (entry, bad[:30]), '%s on %r: %s' % (entry, text, bad),
                              dict(kind='no-output-on-failure', input=text, entry=entry, message=bad))
    n, k = (150, 12) if rep.tier == 'quick' else (700, 24)
    if pr['demoted'] or pr['regressions']:
        n *= 3
    psc.corruption(rep, n, k)
    from props.pyprops import report_regressions
    report_regressions(rep, pr)
    rep.bounded['rule'] = ('token-level corruptions (delete, duplicate, swap adjacent, truncate, stray token from {}()<>;,:: x, drop one bracket) of seeded random '
                           'modules: each must be rejected, or the accepted tree re-rendered must have the corrupted token stream; plus 5 malformed inputs x 3 entry '
                           'points run in a scratch directory with earlier outputs, whose tree must be byte-identical after the failing run')
    rep.explanation = ('(a) every token accounted for: results-name dataflow on the live grammar (exact) + bounded corruption enumeration; (b) rejection: the '
                       'StringEnd anchor (exact) + the validating constructors; (c) no output on failure: write-after-validation ordering of the three entry '
                       'points (exact, syntactic) + failing runs in scratch directories (bounded).')
    rep.assumptions += ['pyparsing terminates and raises ParseException on non-matching input']
