"""Shared body of the pybind-side property checks (C02, C03, C04, C08, C09, C13, C15)."""
from props import pybind_scope as ps

NAMES = ['contracts.common', 'contracts.names', 'contracts.pybind']
PROOFS = {
    'C03': ['PybindWrapper._gen_module_var', 'PybindWrapper._add_namespaces', 'PybindWrapper._partial_match',
            'PybindWrapper.wrap_ctors', 'PybindWrapper._wrap_dunder', 'PybindWrapper.wrap_dunder_methods',
            'PybindWrapper.wrap_properties', 'PybindWrapper.wrap_operators', 'PybindWrapper.wrap_variable',
            'Enum.namespaces', 'Enum.cpp_typename', 'PybindWrapper.wrap_enum', 'PybindWrapper.wrap_enums',
            'PybindWrapper.wrap_instantiated_declaration',
            # conditional contracts (no method named print, serialization and documentation off): the method binding, the
            # member folds and the class declaration + member order
            'PybindWrapper._wrap_method', 'PybindWrapper.wrap_methods', 'PybindWrapper.wrap_functions',
            'PybindWrapper.wrap_instantiated_class'],
    'C04': ['PybindWrapper._py_args_names', 'PybindWrapper._method_args_signature', 'ArgumentList.list', 'ArgumentList.names',
            'ArgumentList.to_cpp', 'ArgumentList.__len__', 'ReturnType.is_void', 'Method.to_cpp', 'StaticMethod.to_cpp',
            'InstantiatedMethod.to_cpp', 'InstantiatedStaticMethod.to_cpp', 'InstantiatedGlobalFunction.to_cpp',
            'GlobalFunction.to_cpp', 'PybindWrapper._wrap_serialization', 'PybindWrapper.wrap_ctors',
            'PybindWrapper._wrap_method', 'PybindWrapper.wrap_methods', 'PybindWrapper.wrap_functions'],
    'C09': ['collect_namespaces', 'Typename.to_cpp', 'Typename.__repr__', 'Typename.qualified_name', 'Type.to_cpp', 'TemplatedType.to_cpp',
            'PybindWrapper._py_args_names', 'PybindWrapper._method_args_signature', 'PybindWrapper._add_namespaces',
            'PybindWrapper.wrap_variable'],
    'C08': ['collect_namespaces', 'Namespace.top_level', 'Typename.instantiated_name', 'instantiate_name', 'InstantiatedMethod.to_cpp', 'InstantiatedStaticMethod.to_cpp',
            'InstantiatedGlobalFunction.to_cpp', 'InstantiatedConstructor.to_cpp', 'Typename.__init__', 'Class.namespaces',
            'ForwardDeclaration.namespaces', 'InstantiatedClass.cpp_typename', 'InstantiatedClass.to_cpp',
            'InstantiatedDeclaration.to_cpp',
            # the instantiated nodes are built from the right pieces: name = template name + capitalised argument names,
            # instantiation list kept, signature from instantiate_args_list / instantiate_return_type
            'InstantiatedMethod.__init__', 'InstantiatedStaticMethod.__init__', 'InstantiatedConstructor.__init__',
            'InstantiatedGlobalFunction.__init__', 'InstantiatedDeclaration.__init__', 'InstantiatedMethod.construct',
            'InstantiatedStaticMethod.construct', 'InstantiatedConstructor.construct', 'InstantiatedClass.instantiate_parent_class',
            'InstantiatedClass.__init__'],
    'C02': ['is_scoped_template'],      # + the qualifier view of the three instantiators (EXTRA_SETS)
    # what the signature instantiators add on top of instantiate_type (assumed frame contract) changes no existing object
    'C13': ['instantiate_args_list', 'instantiate_return_type'],
    # an ignored class / declaration emits nothing: the pybind declaration binding is '' and the MEX preamble has no collector,
    # clean-up block or RTTI entry for it (the class bindings themselves are decided by the bounded ignore == delete oracle)
    'C15': ['PybindWrapper.wrap_instantiated_declaration', 'MatlabWrapper.generate_preamble'],
}
MODULES_EXTRA = {'C02': ['contracts.parser'], 'C13': ['contracts.parser'], 'C08': ['contracts.parser', 'contracts.instantiator'],
                 'C15': ['contracts.matlab_text', 'contracts.c06']}
# further proof sets of a property, each with its own contract modules (a module may replace the view another one gives of the
# same function): C02 verifies instantiate_type / instantiate_args_list / instantiate_return_type against contracts/c02_quals.py
# (result is a new object, qualifiers kept, names / defaults / order / pair shape kept; frame of nested calls assumed)
EXTRA_SETS = {
    'C02': [(['instantiate_type', 'instantiate_args_list', 'instantiate_return_type'],
             NAMES + ['contracts.parser', 'contracts.c02_quals'])],
}
CATS = {
    'C03': {'presence', 'readable'},
    'C04': {'forwarding'},
    'C09': {'readable', 'forwarding'},
    'C08': {'order', 'presence'},
    'C02': {'forwarding'},
}


def prove(rep, pid, args):
    keys = PROOFS[pid]
    if keys:
        rep.run_proofs(keys, NAMES + MODULES_EXTRA.get(pid, []))
    for ks, mods in EXTRA_SETS.get(pid, []):
        rep.run_proofs(ks, mods)
    pr = rep.classify(rebaseline=args.rebaseline)
    return pr


def report_regressions(rep, pr):
    concrete = [v for v in rep.violations if v['concrete']]
    for r in pr['regressions']:
        if concrete:
            break
        rep.violation('ob:' + r['name'], 'obligation no longer discharged (%s): %s' % (r['verdict'], r['name']),
                      dict(obligation=r['name'], function=r['key'], verdict=r['verdict'], solver_output=r['output'],
                           smt_file=r['smt'], path=r['trace']), concrete=False)


def monitors(rep, n=80):
    """run-time contracts (bounded stand-in) on the emitters that are out of the VC generator's reach"""
    import collections
    from pyvc import native, api
    import importlib
    for m in NAMES:
        importlib.import_module(m)
    env = native.spec_env(NAMES)
    from gtwrap.pybind_wrapper import PybindWrapper
    mon = native.Monitor(env, api.CONTRACTS)
    targets = ['PybindWrapper._wrap_method', 'PybindWrapper.wrap_methods', 'PybindWrapper.wrap_functions']
    for k in targets:
        mon.wrap(PybindWrapper, k.split('.')[1], k)
    try:
        for m, text, hits in ps.scope_modules(n, rep.seed + 5):
            if hits:
                continue
            try:
                ps.generate_pybind(text)
            except Exception:
                continue
    finally:
        mon.restore()
    rep.bounded['monitor_calls'] = dict(mon.calls)
    for f in mon.failures[:50]:
        rep.violation('rtc:%s:%s' % (f['function'], f['clause'][:40]),
                      'run-time contract of %s violated: %s' % (f['function'], f['clause'][:120]),
                      dict(kind='rtc', function=f['function'], clause=f['clause'], result=f['result'], expected=f['expected'], args=f['args']))
    return mon
