"""Shared plumbing of the per-property checks: verdicts, known findings, replay files, evidence."""
import hashlib
import json
import os
import re
import sys
import time

ROOT = os.path.dirname(os.path.dirname(os.path.abspath(__file__)))
sys.path.insert(0, ROOT)
OUT = os.environ.get('VERIF_OUT', ROOT)      # evidence / replays go here (scratch runs against mutated copies)

from pyvc import prop as pv   # noqa: E402

TRUSTED_BASE = [
    'pyvc: self-built VC generator (Python ast -> SMT-LIB2), its encoding of the Python subset and its proof rules '
    '(loop cut by invariant, calls replaced by contracts, frame by modifies, recursion by contract: partial correctness)',
    'z3 5.1 (z3-new) and cvc5 1.0.3, first definite answer wins; sound variants of a VC (goal skolemised, quantified '
    'assumptions instantiated / dropped) only contribute `unsat` answers',
    'python ints are mathematical integers; str(int) is an uninterpreted function; strings are SMT strings',
    'well-formedness of parse / instantiated trees: contracts/schema.py (typed fields, class invariants); assumed by the proofs, '
    'checked at run time on every tree of the bounded scopes of C01 / C08 (pyvc/wfcheck.py)',
    'objects of classes in different inheritance families never coincide (heap versions per class family); a function is '
    'verified for partial correctness (termination and resource exhaustion are not)',
    'vacuity guard (every run): the final path condition of every path is tested for satisfiability (z3, 1 s); a function with no '
    'feasible path is not counted as proved and more infeasible paths than in the baseline demote it; `unknown` answers of that '
    'test are taken as feasible (infeasible_paths / paths_shown_feasible per function in functions_under_contract)',
    'CPython and pyparsing for the bounded tier and for replays',
]


class Report:
    def __init__(self, pid, tier, seed):
        self.pid = pid
        self.tier = tier
        self.seed = seed
        self.t0 = time.time()
        self.violations = []        # dict(key=..., what=..., replay=path, concrete=bool)
        self.known_seen = []
        self.proof = None
        self.proof_results = []
        self.bounded = dict(evaluations=0, distinct=set(), samples=[], rule='', skipped=0, exhaustive=False)
        self.structural = []        # (name, ok, detail)
        self.assumptions = []
        self.notes = []
        self.crashes = []
        self.functions = []
        self.level = 'other'
        self.explanation = ''

    # ---------------------------------------------------------------- findings
    def known(self):
        p = os.path.join(ROOT, 'known_findings.json')
        if not os.path.exists(p):
            return []
        with open(p) as f:
            return [k for k in json.load(f).get('findings', []) if k.get('property') == self.pid and k.get('status', 'open') == 'open']

    def is_known(self, key, text=''):
        for k in self.known():
            if k['key'] == key or (k.get('key_prefix') and key.startswith(k['key_prefix'])):
                if 'pattern' in k and not re.search(k['pattern'], text):
                    continue
                return k
        return None

    def violation(self, key, what, replay_obj, concrete=True):
        """register a violation unless it is a listed known finding"""
        text = json.dumps(replay_obj, sort_keys=True, default=str)
        k = self.is_known(key, what + '\n' + text)
        if k is not None:
            if k['id'] not in [x['id'] for x in self.known_seen]:
                self.known_seen.append(k)
            return False
        for v in self.violations:
            if v['key'] == key:
                v['count'] += 1
                return True
        d = os.path.join(OUT, 'replays', self.pid)
        os.makedirs(d, exist_ok=True)
        fn = os.path.join(d, re.sub(r'[^\w.-]+', '_', key)[:60] + '_' + hashlib.sha1(text.encode()).hexdigest()[:8] + '.json')
        replay_obj = dict(replay_obj, property=self.pid, key=key, what=what)
        with open(fn, 'w') as f:
            json.dump(replay_obj, f, indent=1, default=str)
        self.violations.append(dict(key=key, what=what, replay=fn, concrete=concrete, count=1))
        return True

    # ---------------------------------------------------------------- proofs
    def run_proofs(self, keys, modules, hook_guards=(), schema='TREE_SCHEMA', invs='TREE_INVARIANTS'):
        keep = os.path.join(OUT, 'evidence', 'smt', self.pid)
        res = pv.run_proofs(keys, modules, schema, invs, hook_guards, self.tier, keep_dir=keep)
        self.proof_results += res
        return res

    def classify(self, rebaseline=False):
        base = pv.load_baseline(self.pid)
        if rebaseline:
            base = pv.make_baseline(self.proof_results)
            os.makedirs(os.path.join(ROOT, 'baseline'), exist_ok=True)
            with open(os.path.join(ROOT, 'baseline', self.pid + '.json'), 'w') as f:
                json.dump(base, f, indent=1, sort_keys=True)
        self.proof = pv.classify(self.proof_results, base)
        for key, err in self.proof['crashes']:
            self.crashes.append('%s: %s' % (key, err[-600:]))
        return self.proof

    # ---------------------------------------------------------------- evidence
    def finish(self, checker_cmd, extra_cov=None):
        wall = time.time() - self.t0
        pr = self.proof or dict(discharged=0, total=0, regressions=[], undecided=[], demoted=[], proved=[])
        funcs = []
        by_solver = {}
        solver_time = 0.0
        for r in self.proof_results:
            st = 'out-of-reach' if r['unsupported'] else ('proved' if r['obligations'] and all(o['verdict'] == 'unsat' for o in r['obligations']) else 'not-proved')
            if r.get('error'):
                st = 'checker-error'
            funcs.append(dict(function=r['key'], file=r['path'], sha=r['sha'], paths=r['paths'], obligations=len(r['obligations']),
                              status=st, reason=r['unsupported'], gen_s=r['gen_s'],
                              infeasible_paths=r.get('dead_paths'), paths_shown_feasible=r.get('live_paths')))
            for o in r['obligations']:
                solver_time += o['time']
                if o['verdict'] == 'unsat':
                    for s in o['solver']:
                        by_solver[s] = by_solver.get(s, 0) + 1
        lib = sorted({x for r in self.proof_results for x in r.get('lib', [])})
        wf = sorted({x for r in self.proof_results for x in r.get('wf_used', [])})
        inl = sorted({x for r in self.proof_results for x in r.get('inlined', [])})
        samples = []
        for r in self.proof_results[:6]:
            for o in r['obligations'][:2]:
                samples.append(dict(obligation=o['name'], verdict=o['verdict'], solver=o['solver'], time_s=o['time']))
        samples += self.bounded['samples'][:6]
        cov = dict(
            obligations=pr['total'], discharged=pr['discharged'], checker_cmd=checker_cmd,
            trusted_base=TRUSTED_BASE,
            evaluations=self.bounded['evaluations'], distinct_nontrivial=len(self.bounded['distinct']),
            rule=self.bounded['rule'], samples=samples or [dict(note='no cases')], exhaustive=self.bounded['exhaustive'],
            explanation=self.explanation,
            functions_under_contract=funcs,
            discharged_by_backend=by_solver, solver_time_s=round(solver_time, 2),
            functions_inlined_without_contract=inl,
            library_models_assumed=lib, wellformedness_assumed_at_calls=wf,
            undecided_obligations=[u['name'] for u in pr['undecided']][:50],
            regressions=[u['name'] for u in pr['regressions']][:50],
            demoted_to_bounded=[d['key'] + ': ' + str(d['reason']) for d in pr['demoted']],
            structural_checks=[dict(name=n, ok=ok, detail=d) for n, ok, d in self.structural],
            bounded_inputs_skipped=self.bounded['skipped'],
            known_findings_seen=[k['id'] for k in self.known_seen],
        )
        for k, v in self.bounded.items():
            if k not in ('evaluations', 'distinct', 'samples', 'rule', 'skipped', 'exhaustive'):
                cov['bounded_' + k] = v
        if extra_cov:
            cov.update(extra_cov)
        level = self.level
        if level == 'proof' and (pr['total'] == 0 or pr['discharged'] != pr['total']):
            level = 'other'
        ev = dict(property_id=self.pid, tier=self.tier, seed=self.seed, level=level, coverage=cov,
                  assumptions=self.assumptions + ['assumed contracts: ' + ', '.join(sorted(self.assumed_contracts()))],
                  wall_s=round(wall, 2), violations=len(self.violations))
        os.makedirs(os.path.join(OUT, 'evidence'), exist_ok=True)
        with open(os.path.join(OUT, 'evidence', self.pid + '.json'), 'w') as f:
            json.dump(ev, f, indent=1, default=str)
        for k in self.known_seen:
            print('KNOWN-FINDING: property=%s %s' % (self.pid, k['description']))
        for v in self.violations:
            tail = '' if v['concrete'] else ' no-failing-input-found'
            print('VIOLATION property=%s replay=%s %s%s' % (self.pid, v['replay'], v['what'][:200].replace('\n', ' '), tail))
        if self.crashes:
            for c in self.crashes[:5]:
                print('CHECKER-ERROR: %s' % c, file=sys.stderr)
            return 3
        return 1 if self.violations else 0

    def _proved_elsewhere(self, key):
        import glob
        if not hasattr(self, '_base_cache'):
            self._base_cache = {}
            for f in sorted(glob.glob(os.path.join(ROOT, 'baseline', '*.json'))):
                try:
                    with open(f) as fh:
                        b = json.load(fh)
                except Exception:
                    continue
                for k, v in b.items():
                    if isinstance(v, dict) and v.get('proved'):
                        self._base_cache.setdefault(k, os.path.basename(f)[:-5])
        return self._base_cache.get(key)

    def assumed_contracts(self):
        """contracts that the proofs of this run rely on without having discharged them in this run"""
        proved_here = {r['key'] for r in self.proof_results
                       if not r['unsupported'] and r['obligations'] and all(o['verdict'] == 'unsat' for o in r['obligations'])}
        out = set()
        for r in self.proof_results:
            assumed = r.get('called_assumed', {})
            for c in r.get('called', []):
                if c in assumed:
                    out.add('%s (assumed: %s)' % (c, assumed[c][:140]))
                elif c not in proved_here:
                    where = self._proved_elsewhere(c)
                    out.add('%s (%s)' % (c, ('proved by check %s' % where) if where else 'contract used but NOT proved by any check'))
            for c, conds in r.get('called_conditional', {}).items():
                out.add('%s (conditional: verified under %s)' % (c, ' and '.join(conds)[:200]))
        return out
