"""Bounded MATLAB oracles on real output: C06 (arities, guards, marshalling, returns) and C10 (toolbox contents)."""
import os
import re

from gen import reference as R
from gen.iface import abs_module, T, BASIC
from props.matlab_e2e import generate, routine_body

NOT_PTR = ('int', 'double', 'bool', 'char', 'unsigned char', 'size_t')
IGN_NS = ('Matrix', 'Vector', 'Point2', 'Point3')


def callables(module, path=()):
    """(kind, namespace path, class name or None, name, args) for every non-templated callable"""
    for d in module:
        if d[0] == 'ns':
            yield from callables(d[2], path + (d[1],))
        elif d[0] == 'func' and d[1] is None:
            yield ('func', path, None, d[3], d[4], d[2])
        elif d[0] == 'class' and d[1] is None:
            this = T(d[3], path)
            for m in d[5]:
                if m[0] == 'ctor':
                    for mc, env in R.envs_of(m[1]):
                        yield ('ctor', path, d[3], d[3], R.subst_args(m[3], env, this), None)
                elif m[0] == 'method':
                    for mc, env in R.envs_of(m[1]):
                        yield ('method', path, d[3], m[3] + R.inst_suffix(mc), R.subst_args(m[4], env, this), R.subst_ret(m[2], env, this) if not mc else None)
                elif m[0] == 'static':
                    for mc, env in R.envs_of(m[1]):
                        yield ('static', path, d[3], m[3] + R.inst_suffix(mc), R.subst_args(m[4], env, this), R.subst_ret(m[2], env, this) if not mc else None)


def enum_context(module, path=(), out=None):
    """(path, class name) -> (enums declared in the class, enums declared in the class's namespace)"""
    out = {} if out is None else out
    ns_enums = [d[1] for d in module if d[0] == 'enum']
    for d in module:
        if d[0] == 'ns':
            enum_context(d[2], path + (d[1],), out)
        elif d[0] == 'class':
            out[(path, d[3])] = ([m[1] for m in d[5] if m[0] == 'enum'], ns_enums)
    return out


def ndefaults(args):
    k = 0
    for a in reversed(args):
        if a[3] is None:
            break
        k += 1
    return k


def c06_check(text, files, w, module):
    import gtwrap.interface_parser as parser
    import gtwrap.template_instantiator as inst
    bad = []
    cpp = [v for k, v in files.items() if k.endswith('_wrapper.cpp')][-1]
    # routines by (class name, member name)
    by_member = {}
    for idx, e in w.wrapper_map.items():
        ns, cls, role, name, extra = e
        if isinstance(extra, (parser.Method, parser.StaticMethod, parser.Constructor)):
            key = (ns + getattr(cls, 'name', ''), 'ctor' if isinstance(extra, parser.Constructor) else
                   ('static:' if isinstance(extra, parser.StaticMethod) else '') + extra.name)
            by_member.setdefault(key, []).append((idx, name, extra))
        elif isinstance(cls, parser.GlobalFunction):
            by_member.setdefault((None, ''.join(cls.parent.full_namespaces()) + '.' + cls.name), []).append((idx, name, cls))
    groups = {}
    ectx = enum_context(module)
    for c in callables(module):
        kind, path, cname, name, args, ret = c
        if name in ('serialize', 'serializable', 'pickle') and kind == 'method':
            continue
        if kind == 'func':
            groups.setdefault((None, ''.join(path) + '.' + name), []).append(c)
        else:
            groups.setdefault((''.join(path) + cname, 'ctor' if kind == 'ctor' else ('static:' if kind == 'static' else '') + name), []).append(c)
    for key, cs in groups.items():
        routines = by_member.get(key, [])
        want = []
        for kind, path, cname, name, args, ret in cs:
            n, k = len(args), ndefaults(args)
            for a in range(n, n - k - 1, -1):
                want.append((kind, a, args, ret, path, cname, name))
        if len(routines) != len(want):
            bad.append(('arity-set', '%s.%s: %d routines generated for %d declared arities' % (key[0], key[1], len(routines), len(want))))
            continue
        for (idx, rname, obj), (kind, a, args, ret, path, cname, name) in zip(routines, want):
            body = routine_body(cpp, rname)
            if body is None:
                bad.append(('routine-missing', rname))
                continue
            where = '%s (arity %d of %s)' % (rname, a, name)
            if kind != 'ctor':
                m = re.search(r'checkArguments\("[^"]*",nargout,nargin(-1)?,(\d+)\);', body)
                if not m:
                    bad.append(('no-checkArguments', where))
                    continue
                if int(m.group(2)) != a:
                    bad.append(('checkArguments-count', '%s expects %s arguments' % (where, m.group(2))))
                if (m.group(1) == '-1') != (kind == 'method'):
                    bad.append(('checkArguments-offset', where))
            unwraps = re.findall(r'^\s+(\S.*?) (\w+) = \*?(unwrap\w*)<\s*(.*?)\s*>\(in\[(\d+)\]', body, re.M)
            unwraps = [u for u in unwraps if u[1] != 'obj']
            off = 1 if kind == 'method' else 0
            if [u[1] for u in unwraps] != [x[2] for x in args[:a]]:
                bad.append(('unwrap-names', '%s unwraps %s, declared %s' % (where, [u[1] for u in unwraps], [x[2] for x in args[:a]])))
                continue
            for j, u in enumerate(unwraps):
                if int(u[4]) != off + j:
                    bad.append(('unwrap-position', '%s reads parameter %s from in[%s]' % (where, u[1], u[4])))
                t = args[j][1]
                mode = u[2]
                base = t[3]
                can_ptr = base not in NOT_PTR and base not in IGN_NS and base != 'string'
                is_ref = t[5] == '&' and base not in IGN_NS and base not in NOT_PTR
                if is_ref:
                    exp = 'unwrap_shared_ptr'          # a reference is bound to the object behind the handle
                elif t[5] == '@' and base not in IGN_NS:
                    exp = 'unwrap_ptr'
                elif (t[5] == '*' or can_ptr) and base not in IGN_NS:
                    exp = 'unwrap_shared_ptr'
                else:
                    exp = 'unwrap'
                if mode != exp and not (mode == 'unwrap_enum'):
                    bad.append(('unwrap-mode', '%s: parameter %s (%s) unwrapped with %s, expected %s' % (where, u[1], R.cpp_type(t), mode, exp)))
            # the call
            callee = ('new ' if kind == 'ctor' else '')
            cm = re.search(r'(?:new [\w:<>, ]+?|obj->\w+|[\w:]+::\w+|\b\w+)\((.*)\)\)?;', _last_call(body, kind, name, cname))
            if kind in ('method', 'static') and ret is None:
                continue        # member-level template: callee spelling carries template arguments (checked on the pybind side)
            call_args = _last_args(body, kind, name, cname)
            if call_args is None and kind in ('method', 'static'):
                import re as _re
                mm = _re.search(r'(obj->|::)(\w+)<[^;]*>\(', body)
                if mm:
                    call_args = _last_args(body.replace(mm.group(0), mm.group(1) + mm.group(2) + '('), kind, mm.group(2), cname)
            if call_args is None:
                bad.append(('call-not-found', where))
                continue
            exp_args = []
            for j, x in enumerate(args):
                if j < a:
                    exp_args.append(x[2])
                else:
                    exp_args.append(x[3])
            got_args = [g.lstrip('*') if i < a else g for i, g in enumerate(call_args)]
            if got_args != exp_args:
                bad.append(('call-arguments', '%s calls with %s, declared order/defaults %s' % (where, call_args, exp_args)))
            # return shape
            if kind != 'ctor' and ret is not None:
                outs = len(set(re.findall(r'out\[(\d)\]', body)))
                want_outs = 0 if (ret[0] == 'T' and ret[3] == 'void') else 2 if ret[0] == 'P' else 1
                if outs != want_outs:
                    bad.append(('return-outputs', '%s assigns %d outputs, declared return needs %d' % (where, outs, want_outs)))
                # a returned enum is wrapped as the MATLAB enumeration class in the package where the enum lives
                if want_outs == 1 and cname is not None and ret[0] == 'T' and not ret[4]:
                    cls_enums, ns_enums = ectx.get((tuple(path), cname), ((), ()))
                    pkg = None
                    if ret[3] in cls_enums and tuple(ret[2]) in ((), tuple(path) + (cname,)):
                        pkg = tuple(path) + (cname,)
                    elif ret[3] in ns_enums and ret[3] not in cls_enums and tuple(ret[2]) in ((), tuple(path)):
                        pkg = tuple(path)
                    if pkg is not None:
                        em = re.search(r'wrap_enum\(.*,"([\w.]*)"\);', body)
                        want_cls = '.'.join(pkg + (ret[3],))
                        if not em:
                            bad.append(('return-enum', '%s returns enum %s but does not wrap it with wrap_enum' % (where, want_cls)))
                        elif em.group(1) != want_cls:
                            bad.append(('return-enum-class', '%s wraps its enum result as "%s", declared %s' % (where, em.group(1), want_cls)))
    bad += m_guards(files, w)
    return bad


def _last_call(body, kind, name, cname):
    return body


def _split_args(s):
    out, cur, d, q = [], '', 0, None
    for ch in s:
        if q:
            cur += ch
            if ch == q:
                q = None
        elif ch in '"\'':
            q = ch
            cur += ch
        elif ch in '([{<':
            d += 1
            cur += ch
        elif ch in ')]}>':
            d -= 1
            cur += ch
        elif ch == ',' and d == 0:
            out.append(cur.strip())
            cur = ''
        else:
            cur += ch
    if cur.strip():
        out.append(cur.strip())
    return out


def _last_args(body, kind, name, cname):
    flat = body
    if kind == 'ctor':
        i = flat.find('new Shared(new ')
        if i < 0:
            return None
        j = flat.find('(', i + len('new Shared(new '))
    elif kind == 'method':
        i = flat.find('obj->%s(' % name)
        if i < 0:
            return None
        j = i + len('obj->%s' % name)
    else:
        m = None
        for m in re.finditer(r'(?:::|\b)%s\(' % re.escape(name), flat):
            pass
        cands = [x for x in re.finditer(r'(?:::|[ (;*\n])%s\(' % re.escape(name), flat) if 'checkArguments' not in flat[max(0, x.start() - 20):x.start()]]
        if not cands:
            return None
        j = cands[-1].end() - 1
    d, k, q = 0, j, None
    while k < len(flat):
        ch = flat[k]
        if q:
            if ch == q:
                q = None
        elif ch in '"\'':
            q = ch
        elif ch == '(':
            d += 1
        elif ch == ')':
            d -= 1
            if d == 0:
                break
        k += 1
    return _split_args(flat[j + 1:k])


def m_guards(files, w):
    """every gateway call in a method / static / constructor / function body sits under a guard that tests the count it serves"""
    bad = []
    for path, text in files.items():
        if not path.endswith('.m'):
            continue
        lines = text.split('\n')
        guard = None
        for ln in lines:
            g = re.search(r'(?:if|elseif) (?:length\(varargin\)|nargin) == (\d+)(.*)$', ln)
            if g:
                idxs = [int(x) for x in re.findall(r'varargin\{(\d+)\}', g.group(2))]
                guard = (int(g.group(1)), idxs)
                if idxs and max(idxs) > guard[0] and "'void'" not in ln and 'uint64(5139824614673773682)' not in ln:
                    bad.append(('guard-index', '%s: guard for %d arguments tests varargin{%d}' % (path, guard[0], max(idxs))))
            c = re.search(r'_wrapper\((\d+)(.*)\);', ln)
            if c and guard is not None:
                i = int(c.group(1))
                e = w.wrapper_map.get(i)
                extra = e[4] if e else None
                if extra is not None and hasattr(extra, 'args') and 'varargin{:}' in ln:
                    n = len(extra.args.list())
                    if guard[0] != n:
                        bad.append(('guard-count', '%s: call of id %d (arity %d) under a guard for %d arguments' % (path, i, n, guard[0])))
    return bad


# ---------------------------------------------------------------- C10
def c10_check(text, files, w, module, ignore=()):
    bad = []
    exp_files = {}
    cpp_name = 'mod_wrapper.cpp'

    def pkg(path):
        return os.path.join(*['+' + p for p in path]) if path else ''

    virtuals, classes_all = [], []
    for rec in R.bindings(module):
        pass

    def walk(decls, path):
        fnames = []
        for d in decls:
            if d[0] == 'ns':
                walk(d[2], path + (d[1],))
            elif d[0] == 'class':
                for combo, env in R.envs_of(d[1]):
                    name = d[3] + R.inst_suffix(combo)
                    q = '::'.join(path + (name,))
                    if q in ignore or ('::' + q) in ignore:
                        continue
                    base = None
                    if d[4] is not None:
                        b = R.subst(d[4], env, T(d[3], path, combo)) if d[4][4] else d[4]
                        # golden-pinned spelling (ForwardKinematicsFactor.m): the C++ spelling of the parent with `::` -> `.`
                        base = R.cpp_name(b).replace('::', '.')
                    exp_files[os.path.join(pkg(path), name + '.m')] = ('class', name, base, d, combo, path)
                    classes_all.append((path, name, d, combo))
                    for m in d[5]:
                        if m[0] == 'enum':
                            exp_files[os.path.join(pkg(path), '+' + name, m[1] + '.m')] = ('enum', m[1], m[3])
            elif d[0] == 'func':
                if d[1] is None or R.envs_of(d[1]):
                    for combo, env in R.envs_of(d[1]):
                        fn = d[3] + R.inst_suffix(combo)
                        exp_files[os.path.join(pkg(path), fn + '.m')] = ('func', fn)
            elif d[0] == 'enum':
                exp_files[os.path.join(pkg(path), d[1] + '.m')] = ('enum', d[1], d[3])
            elif d[0] == 'typedef':
                target, tns = R.find_template(module, d[1][2], d[1][3])
                if target is not None and target[0] == 'class' and target[1] is not None:
                    exp_files[os.path.join(pkg(tns), d[2] + '.m')] = ('class', d[2], None, target, d[1][4], tns)
                    classes_all.append((tns, d[2], target, d[1][4]))
    walk(module, ())
    got = {p: t for p, t in files.items() if p.endswith('.m')}
    cpps = [p for p in files if p.endswith('.cpp')]
    if sorted(set(cpps)) != [cpp_name]:
        bad.append(('mex-source-count', 'MEX sources: %s' % cpps))
    for p in sorted(set(exp_files) - set(got)):
        bad.append(('file-missing', '%s (%s) is not generated' % (p, exp_files[p][0])))
    for p in sorted(set(got) - set(exp_files)):
        bad.append(('file-undeclared', '%s is generated but nothing declares it' % p))
    cpp = files.get(cpp_name, '')
    for p, e in exp_files.items():
        t = got.get(p)
        if t is None:
            continue
        if e[0] == 'enum':
            m = re.search(r'classdef %s < uint32\s+enumeration\s+(.*?)\s+end' % re.escape(e[1]), t, re.S)
            if not m:
                bad.append(('enum-classdef', p))
                continue
            items = re.findall(r'(\w+)\((\d+)\)', m.group(1))
            if [(n, int(i)) for n, i in items] != [(n, i) for i, n in enumerate(e[2])]:
                bad.append(('enum-numbering', '%s: %s, declared %s' % (p, items, list(e[2]))))
        elif e[0] == 'class':
            _, name, base, d, combo, path = e
            m = re.search(r'classdef (\w+) < ([^\n]+)', t)
            if not m or m.group(1) != name:
                bad.append(('classdef-name', p))
                continue
            if d[4] is None and m.group(2) != 'handle':
                bad.append(('classdef-base', '%s derives from %s, declared none' % (p, m.group(2))))
            if d[4] is not None and base is not None and m.group(2) != base:
                bad.append(('classdef-base', '%s derives from %s, declared %s' % (p, m.group(2), base)))
            q = ''.join(path) + name
            if 'ptr_%s = 0' % q not in t:
                bad.append(('classdef-pointer-property', p))
            if not re.search(r'function obj = %s\(varargin\)' % name, t) or 'function delete(obj)' not in t:
                bad.append(('classdef-ctor-delete', p))
            mnames = []
            for mm in d[5]:
                if mm[0] == 'method' and mm[3] not in ('serialize', 'serializable', 'pickle'):
                    for mc, _ in R.envs_of(mm[1]):
                        nm = mm[3] + R.inst_suffix(mc)
                        if nm not in mnames:
                            mnames.append(nm)
            for nm in mnames:
                if len(re.findall(r'function varargout = %s\(this, varargin\)' % re.escape(nm), t)) != 1:
                    bad.append(('classdef-method', '%s: method %s defined %d times' % (p, nm, len(re.findall(r'function varargout = %s\(this, varargin\)' % re.escape(nm), t)))))
            snames = []
            for mm in d[5]:
                if mm[0] == 'static':
                    for mc, _ in R.envs_of(mm[1]):
                        nm = mm[3] + R.inst_suffix(mc)
                        if nm not in snames:
                            snames.append(nm)
            for nm in snames:
                if len(re.findall(r'function varargout = %s\(varargin\)' % re.escape(nm), t)) != 1:
                    bad.append(('classdef-static', '%s: static %s' % (p, nm)))
            for mm in d[5]:
                if mm[0] == 'prop':
                    if 'function varargout = get.%s(this)' % mm[2] not in t or 'function set.%s(this, value)' % mm[2] not in t:
                        bad.append(('classdef-property-access', '%s: %s' % (p, mm[2])))
            # the MEX source: one collector, cleanup, RTTI iff virtual
            if len(re.findall(r'^static Collector_%s collector_%s;' % (q, q), cpp, re.M)) != 1:
                bad.append(('collector', 'class %s has %d collectors' % (q, len(re.findall(r'^static Collector_%s ' % q, cpp, re.M)))))
            if 'collector_%s.begin()' % q not in cpp:
                bad.append(('collector-cleanup', 'class %s is not freed by _deleteAllObjects' % q))
            rtti = 'typeid(%s).name(), "%s"' % ('::'.join(path + (name,)) if not combo else name, q) in cpp
            if bool(d[2]) != rtti and not combo:
                bad.append(('rtti', 'class %s virtual=%s, RTTI registered=%s' % (q, bool(d[2]), rtti)))
    return bad


def modules(n, seed):
    import gtwrap.interface_parser as ip
    from gen import scope
    from gen.iface import Gen, sanitize, unparse
    for sp in scope.core_specs() + scope.sample(n, seed + 3):
        t = scope.build(sp)
        yield t, abs_module(ip.Module.parseString(t)), 'scope'
    from props.pybind_scope import known_predicates
    for i in range(n // 2):
        m = sanitize(Gen(seed * 8191 + i).module())
        if known_predicates(m) - {'enum-in-class'}:
            continue
        yield unparse(m), m, 'random'


def run(rep, n, which):
    for i, (text, m, origin) in enumerate(modules(n, rep.seed)):
        # serialization setting: the structured scope is generated under both, random modules alternate
        for boost in ((False, True) if origin == 'scope' else (bool(i % 2),)):
            rep.bounded['evaluations'] += 1
            try:
                files, w = generate(text, boost=boost)
            except Exception as e:
                rep.bounded['skipped'] += 1
                if which == 'C10':
                    # every interface file of the dialect yields a toolbox: a generator that dies on one produces nothing
                    rep.violation('c10:generation-fails', 'generation fails on a valid interface file: %s: %s' % (type(e).__name__, str(e)[:120]),
                                  dict(kind='matlab-C10', input=text, message='generation fails', boost=boost))
                continue
            rep.bounded['distinct'].add(hash((text, boost)))
            if len(rep.bounded['samples']) < 2:
                rep.bounded['samples'].append(dict(input=text[:300], origin=origin, use_boost_serialization=boost))
            bad = c06_check(text, files, w, m) if which == 'C06' else c10_check(text, files, w, m)
            for key, msg in bad:
                rep.violation('%s:%s' % (which.lower(), key), msg + (' [use_boost_serialization]' if boost else ''),
                              dict(kind='matlab-' + which, input=text, message=msg, boost=boost))


def replay(obj):
    import gtwrap.interface_parser as ip
    text = obj['input']
    try:
        files, w = generate(text, boost=bool(obj.get('boost', False)))
    except Exception as e:
        print('observed: generation fails: %s: %s' % (type(e).__name__, e))
        return 1
    m = abs_module(ip.Module.parseString(text))
    bad = c06_check(text, files, w, m) if obj['kind'].endswith('C06') else c10_check(text, files, w, m)
    for k, msg in bad:
        print('observed:', k, msg)
    return 1 if bad else 0
