"""C05 -- MATLAB call-site ids and the MEX dispatch table always agree."""
import ast
import os

from props.common import ROOT

KEYS = """MatlabWrapper._update_wrapper_id MatlabWrapper._wrapper_name MatlabWrapper.wrap_global_function
MatlabWrapper.wrap_class_constructors MatlabWrapper.wrap_class_properties MatlabWrapper.wrap_class_deconstructor
MatlabWrapper.wrap_class_serialize_method MatlabWrapper.wrap_class_methods MatlabWrapper.wrap_static_methods
MatlabWrapper.mex_function MatlabWrapper.wrap_collector_function_upcast_from_void MatlabWrapper.generate_wrapper
MatlabWrapper.wrap_methods MatlabWrapper.add_class MatlabWrapper.wrap_instantiated_class MatlabWrapper.wrap_namespace
lemma_every_id_served_once""".split()
MODULES = ['contracts.common', 'contracts.matlab_text', 'contracts.names', 'contracts.c05']
GATEWAY = r'\{(wrapper|wrapper_name|module_name)\}(_wrapper)?\(\{'


def structural(rep):
    """exact syntactic facts the proof relies on"""
    from pyvc.extract import Repo
    repo = Repo()
    # 1. single writer: only _update_wrapper_id stores wrapper_id / wrapper_map (plus __init__)
    writers = set()
    for key, fi in repo.functions.items():
        for n in ast.walk(fi.node):
            if isinstance(n, ast.Attribute) and n.attr in ('wrapper_id', 'wrapper_map') and isinstance(n.ctx, ast.Store):
                writers.add(key)
            if isinstance(n, ast.Subscript) and isinstance(n.ctx, ast.Store) and isinstance(n.value, ast.Attribute) \
                    and n.value.attr == 'wrapper_map':
                writers.add(key)
            if isinstance(n, ast.AugAssign) and isinstance(n.target, ast.Attribute) and n.target.attr in ('wrapper_id', 'wrapper_map'):
                writers.add(key)
    ok = writers <= {'MatlabWrapper._update_wrapper_id', 'MatlabWrapper.__init__'}
    rep.structural.append(('single-writer of wrapper_id/wrapper_map', ok, sorted(writers)))
    if not ok:
        rep.violation('struct:single-writer', 'wrapper_id / wrapper_map are written outside _update_wrapper_id: %s' % sorted(writers),
                      dict(obligation='single-writer', writers=sorted(writers)), concrete=False)
    # 2. the routine text depends on the map only through the entry of its own id
    fi = repo.functions.get('MatlabWrapper.generate_collector_function')
    reads = []
    if fi is not None:
        for n in ast.walk(fi.node):
            if isinstance(n, ast.Attribute) and n.attr in ('wrapper_map', 'wrapper_id'):
                reads.append(ast.unparse(_parent_call(fi.node, n)))
    ok = reads == ['self.wrapper_map.get(func_id)']
    rep.structural.append(('generate_collector_function reads the map only as wrapper_map.get(func_id)', ok, reads))
    if not ok:
        rep.violation('struct:routine-depends-on-own-entry', 'generate_collector_function reads %s' % reads,
                      dict(obligation='routine text is a function of its own map entry', reads=reads), concrete=False)
    # 3. __init__ establishes the invariant's initial state
    init = repo.functions.get('MatlabWrapper.__init__')
    src = init.source if init else ''
    ok = 'self.wrapper_id = 0' in src and ('self.wrapper_map: Dict = {}' in src or 'self.wrapper_map = {}' in src)
    rep.structural.append(('__init__ starts with wrapper_id = 0 and an empty wrapper_map', ok, ''))
    if not ok:
        rep.violation('struct:init', 'MatlabWrapper.__init__ no longer starts from wrapper_id = 0 / empty map',
                      dict(obligation='initial state'), concrete=False)


def _parent_call(fn, node):
    for n in ast.walk(fn):
        if isinstance(n, ast.Call) and isinstance(n.func, ast.Attribute) and n.func.value is node:
            return n
    return node


def bounded(rep, n):
    from gen.iface import Gen, unparse
    from props.matlab_e2e import generate, c05_check
    rep.bounded['rule'] = ('a seeded slice of the structured scope gen/scope.py (<=3 entities x 17 shapes x 4 namespace placements, clashing simple names across namespaces) plus seeded random interface files from the reference grammar (gen/iface.py: classes with ctors/methods/'
                           'statics/properties/enums/operators, templates with lists, virtual, bases, namespaces depth<=2, functions), '
                           'boost on/off; each is run through the real MatlabWrapper and the generated .m/.cpp are read back: ids, cases, '
                           'routine definitions and roles must agree. distinct = distinct generated texts that the generator accepted '
                           'and that contain at least one call site')
    from gen import scope
    texts = [scope.build(sp) for sp in scope.core_specs() + scope.sample(n, rep.seed + 17)]
    texts += [unparse(Gen(rep.seed * 100003 + i).module()) for i in range(n // 2)]
    import re
    for i, text in enumerate(texts):
        configs = [(False, ('',))]
        if i % 3 == 0:
            configs.append((True, ('',)))
        m = re.search(r'namespace (\w+) \{\n(?:virtual )?class (\w+)', text)
        if m and i % 2 == 0:
            configs.append((False, ('%s::%s' % (m.group(1), m.group(2)),)))    # ignore a namespaced class
        for boost, ignore in configs:
            rep.bounded['evaluations'] += 1
            try:
                files, w = generate(text, boost=boost, ignore=ignore)
            except Exception as e:      # rejected / crashed inputs are the business of C07 / C06
                rep.bounded['skipped'] += 1
                continue
            if len(set(os.path.basename(p) for p in files)) != len(files) and False:
                continue
            names = [c for c in _flat_names(w.content) if not c.endswith('_wrapper.cpp')]
            if len(names) != len(set(names)):
                rep.bounded['skipped'] += 1      # two instantiations with the same generated name (C08 naming limit)
                continue
            bad = c05_check(files)
            if w.wrapper_id > 0:
                rep.bounded['distinct'].add(hash(text))
            if len(rep.bounded['samples']) < 3 and w.wrapper_id > 3:
                rep.bounded['samples'].append(dict(input=text[:400], ids=w.wrapper_id, boost=boost))
            for key, msg in bad:
                rep.violation('e2e:' + key, msg, dict(input=text, boost=boost, ignore=list(ignore), kind='matlab-e2e', message=msg))


def _flat_names(cc, path=''):
    for c in cc:
        if isinstance(c, list):
            if c:
                for sub in c:
                    yield from _flat_names(sub[1], os.path.join(path, c[0][0]))
        elif isinstance(c[1], list):
            for sub in c[1]:
                yield os.path.join(path, c[0], sub[0])
        else:
            yield os.path.join(path, c[0])


def replay(obj):
    from props.matlab_e2e import generate, c05_check
    if obj.get('kind') != 'matlab-e2e':
        print('replay: obligation-level finding, no concrete input recorded:', obj.get('what'))
        print(obj.get('solver_output', '')[:2000])
        return 1
    files, w = generate(obj['input'], boost=obj.get('boost', False), ignore=tuple(obj.get('ignore', ['']))) 
    bad = c05_check(files)
    for k, msg in bad:
        print('observed:', k, msg)
    return 1 if bad else 0


def run(rep, args):
    rep.level = 'proof'
    rep.explanation = ('every allocation site of the MATLAB generator keeps the class invariant c05_inv (ids below wrapper_id are '
                       'each used by exactly one .m call site whose declared role matches the map entry the gateway dispatches it to); '
                       'mex_function / generate_wrapper are proved to emit one case and one routine per id with the same skip logic; '
                       'a lemma combines the contracts into the property statement. A seeded end-to-end read-back of real outputs '
                       'runs next to the proof as an independent guard against engine errors (bounded, not counted as proof).')
    rep.run_proofs(KEYS, MODULES, hook_guards=[GATEWAY])
    pr = rep.classify(rebaseline=args.rebaseline)
    structural(rep)
    n = 150 if rep.tier == 'quick' else 2500
    if pr['demoted'] or pr['regressions']:
        # functions that were proved on the baseline are out of reach / failing now: the bounded stand-in
        # takes over for this run with a larger scope
        n *= 6
        rep.level = 'other'
    if pr['undecided']:
        rep.level = 'other'
    bounded(rep, n)
    concrete = [v for v in rep.violations if v['concrete']]
    for r in pr['regressions']:
        if concrete:
            break       # the failing obligations are explained by a concrete failing input found on the real code
        rep.violation('ob:' + r['name'], 'obligation no longer discharged (%s): %s' % (r['verdict'], r['name']),
                      dict(obligation=r['name'], function=r['key'], verdict=r['verdict'], solver_output=r['output'],
                           smt_file=r['smt'], path=r['trace']), concrete=False)
    for d in pr['demoted']:
        rep.notes.append('out of reach this run: %s (%s)' % (d['key'], d['reason']))
    rep.assumptions += [
        'text of generated .m files: the id placed in a gateway call is the value bound to the placeholder that follows '
        '`{wrapper}(` in the format template (format-hole logging); textwrap.indent/dedent and the splitlines/reduce '
        're-indentation do not alter it',
        'routine names with distinct integer suffixes are distinct strings (pen-and-paper lemma, DESIGN.md C05)',
        'termination is not proved (partial correctness)',
    ]
