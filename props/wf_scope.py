"""The typed-field schema and the tree invariants that the proofs assume, checked at run time on the trees of the bounded scope."""
import collections


def texts(n, seed):
    from gen import scope
    from gen.iface import Gen, unparse, sanitize
    out = [scope.build(sp) for sp in scope.core_specs()] + list(scope.PY_SCENARIOS)
    out += [scope.build(sp) for sp in scope.sample(n // 2, seed + 5)]
    for i in range(n):
        m = Gen(seed * 6151 + i).module()
        out.append(unparse(sanitize(m)))
        out.append(unparse(m))
    return out


def check_wf(rep, instantiated, n):
    """-> True iff every tree of the scope conforms to the schema (and, for instantiated trees, to the class invariants)"""
    import gtwrap.interface_parser as ip
    import gtwrap.template_instantiator as ti
    from pyvc import wfcheck, native
    from contracts.schema import SCHEMA, TREE_SCHEMA, TREE_INVARIANTS
    import spec.names_spec  # noqa: F401
    env = native.spec_env()
    bad = collections.Counter()
    example = {}
    trees = objects = 0
    for t in texts(n, rep.seed):
        try:
            m = ip.Module.parseString(t)
        except Exception:
            continue
        schema = SCHEMA
        if instantiated:
            try:
                m = ti.instantiate_namespace(m)
            except Exception:
                continue
            schema = TREE_SCHEMA
        trees += 1
        for b in wfcheck.check(m, schema):
            k = '%s.%s holds %s, the schema says %s' % (b[0], b[1], b[2][:40], b[3])
            bad[k] += 1
            example.setdefault(k, t)
        if instantiated:
            for o in wfcheck.reachable(m, schema):
                objects += 1
                for cname in [c.__name__ for c in type(o).__mro__]:
                    for inv in TREE_INVARIANTS.get(cname, []):
                        try:
                            ok = bool(eval(inv, dict(env, self=o)))
                        except Exception as e:
                            ok = False
                        if not ok:
                            k = 'class invariant of %s fails: %s' % (cname, inv[:70])
                            bad[k] += 1
                            example.setdefault(k, t)
    name = ('typed-field schema%s assumed by the proofs holds on %d %s trees of the bounded scope'
            % (' and class invariants' if instantiated else '', trees, 'instantiated' if instantiated else 'parse'))
    rep.structural.append((name, not bad, dict(list(bad.most_common(6)))))
    if bad:
        k = next(iter(bad))
        rep.notes.append('ASSUMPTION-INVALID: %s (e.g. on %r)' % (k, example[k][:200]))
        import sys
        print('ASSUMPTION-INVALID: %s' % k, file=sys.stderr)
    return not bad
