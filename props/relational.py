"""Relational bounded checks: C13 (independence of instantiations / parameter spelling), C15 (ignore == delete)."""
import re

from gen.iface import Gen, sanitize, unparse, T
from gen import reference as R
from props import pybind_scope as ps
from props.pybind_e2e import read, Unreadable, normalise


def records(text, ignore=('',)):
    return normalise(read(ps.generate_pybind(text, ignore=ignore)))


def of_class(recs, cpp):
    return [r for r in recs if (r[0] == 'class' and r[3] == cpp) or (r[0] != 'class' and len(r) > 1 and r[1] == cpp)
            or (r[0] == 'enum' and r[3].startswith(cpp + '::'))]


def templates(module, path=()):
    for i, d in enumerate(module):
        if d[0] == 'ns':
            for x in templates(d[2], path + (i,)):
                yield x
        elif d[0] in ('class', 'func') and d[1] is not None and all(insts for _, insts in d[1][1]):
            yield path + (i,), d


def replace_at(module, path, new):
    i = path[0]
    if len(path) == 1:
        return module[:i] + ((new,) if new is not None else ()) + module[i + 1:]
    d = module[i]
    return module[:i] + (('ns', d[1], replace_at(d[2], path[1:], new)),) + module[i + 1:]


def ns_of(module, path):
    out = []
    cur = module
    for i in path[:-1]:
        out.append(cur[i][1])
        cur = cur[i][2]
    return tuple(out)


def rename_param(d, old, new):
    def rt(t):
        _, c, ns, name, targs, mark = t
        ns2 = tuple(new if x == old else x for x in ns)
        return ('T', c, ns2, new if (name == old and not ns) else name, tuple(rt(a) for a in targs), mark)

    def rr(r):
        return ('P', rt(r[1]), rt(r[2])) if r[0] == 'P' else rt(r)

    def ra(args):
        return tuple(('A', rt(a[1]), a[2], a[3]) for a in args)

    def rtpl(t):
        return None if t is None else ('TPL', tuple((new if p == old else p, i) for p, i in t[1]))
    if d[0] == 'func':
        return ('func', rtpl(d[1]), rr(d[2]), d[3], ra(d[4]))
    ms = []
    for m in d[5]:
        if m[0] == 'ctor':
            ms.append(('ctor', m[1], m[2], ra(m[3])))
        elif m[0] == 'method':
            ms.append(('method', m[1], rr(m[2]), m[3], ra(m[4]), m[5]))
        elif m[0] == 'static':
            ms.append(('static', m[1], rr(m[2]), m[3], ra(m[4])))
        elif m[0] == 'prop':
            ms.append(('prop', rt(m[1]), m[2], m[3]))
        elif m[0] == 'op':
            ms.append(('op', rr(m[1]), m[2], ra(m[3])))
        else:
            ms.append(m)
    return ('class', rtpl(d[1]), d[2], d[3], rt(d[4]) if d[4] else None, tuple(ms))


def c13(rep, n):
    for i in range(n):
        m = sanitize(Gen(rep.seed * 6151 + i).module())
        if ps.known_predicates(m) - {'enum-in-class'}:
            rep.bounded['skipped'] += 1
            continue
        text = unparse(m)
        tpls = [(p, d) for p, d in templates(m) if len(d[1][1][0][1]) >= 2]
        if not tpls:
            continue
        path, d = tpls[i % len(tpls)]
        rep.bounded['evaluations'] += 1
        try:
            full = records(text)
        except Exception:
            rep.bounded['skipped'] += 1
            continue
        rep.bounded['distinct'].add(hash(text))
        p0, insts = d[1][1][0]
        ns = ns_of(m, path)
        # (1) subset: the first instantiation alone gives the same bindings for it
        d1 = d[:1] + (('TPL', ((p0, insts[:1]),) + d[1][1][1:]),) + d[2:]
        t1 = unparse(replace_at(m, path, d1))
        # (2) permutation
        d2 = d[:1] + (('TPL', ((p0, tuple(reversed(insts))),) + d[1][1][1:]),) + d[2:]
        t2 = unparse(replace_at(m, path, d2))
        # (3) alpha renaming
        d3 = rename_param(d, p0, 'ZZ9')
        t3 = unparse(replace_at(m, path, d3))
        try:
            r1, r2 = records(t1), records(t2)
            o3 = ps.generate_pybind(t3)
            o0 = ps.generate_pybind(text)
            o0b = ps.generate_pybind(text)
        except Exception as e:
            rep.violation('c13:variant-rejected', 'a variant of an accepted templated declaration is rejected: %s' % str(e)[:150],
                          dict(kind='c13', input=text, variant=t1))
            continue
        if len(rep.bounded['samples']) < 2:
            rep.bounded['samples'].append(dict(input=text[:300], template=str(d[1])[:200]))
        if d[0] == 'class':
            others = [dict(zip([p for p, _ in d[1][1]], c)) for c in __import__('itertools').product(*[x for _, x in d1[1][1]])]
            for env in others:
                combo = tuple(env[p] for p, _ in d[1][1])
                cpp = R.cpp_name(T(d[3], ns, combo))
                a, b = of_class(full, cpp), of_class(r1, cpp)
                if sorted(map(repr, a)) != sorted(map(repr, b)):
                    rep.violation('c13:subset', 'bindings of %s depend on which other instantiations are requested' % cpp,
                                  dict(kind='c13', input=text, variant=t1, cpp=cpp, with_all=repr(a)[:600], alone=repr(b)[:600]))
        else:
            a = [r for r in full if r[0] == 'func']
            b = [r for r in r1 if r[0] == 'func']
            if not all(x in a for x in b):
                rep.violation('c13:subset', 'function instantiations depend on which others are requested',
                              dict(kind='c13', input=text, variant=t1))
        if sorted(map(repr, full)) != sorted(map(repr, r2)):
            rep.violation('c13:permutation', 'permuting an instantiation list changes more than the order of the bindings',
                          dict(kind='c13', input=text, variant=t2))
        if o3 != o0:
            rep.violation('c13:renaming', 'renaming template parameter %s changes the generated code' % p0,
                          dict(kind='c13', input=text, variant=t3))
        if o0 != o0b:
            rep.violation('c13:repeat', 'wrapping two fresh parses of the same text gives different output', dict(kind='c13', input=text, variant=text))


def classes(module, path=(), ns=()):
    for i, d in enumerate(module):
        if d[0] == 'ns':
            for x in classes(d[2], path + (i,), ns + (d[1],)):
                yield x
        elif d[0] == 'class' and (d[1] is None or (len(d[1][1]) == 1 and d[1][1][0][1])):
            yield path + (i,), ns, d


def mask_ids(files):
    out = {}
    for p, t in files.items():
        out[p] = re.sub(r'(_wrapper\()\d+', r'\1#', re.sub(r'_\d+\(', '_#(', re.sub(r'case \d+:', 'case #:', t)))
    return out


def c15(rep, n):
    from props.matlab_e2e import generate
    for i in range(n):
        m = sanitize(Gen(rep.seed * 3571 + i).module(ndecl=5))
        if ps.known_predicates(m) - {'enum-in-class'}:
            rep.bounded['skipped'] += 1
            continue
        cls = list(classes(m))
        if len(cls) < 1:
            continue
        names = [c[2][3] for c in classes(m)]
        cls.sort(key=lambda c: (-names.count(c[2][3]), c[2][1] is None))      # prefer clashing simple names, then templates
        path, ns, d = cls[i % min(len(cls), 2)]
        text = unparse(m)
        if d[1] is None:
            cpp = '::'.join(ns + (d[3],))
            mname = cpp
            without = unparse(replace_at(m, path, None))
        else:
            p0, insts = d[1][1][0]
            j = i % len(insts)
            cpp = R.cpp_name(T(d[3], ns, (insts[j],)))
            mname = '::'.join(ns + (d[3] + R.inst_suffix((insts[j],)),))
            rest = insts[:j] + insts[j + 1:]
            d2 = d[:1] + (('TPL', ((p0, rest),)),) + d[2:] if rest else None
            without = unparse(replace_at(m, path, d2))
        rep.bounded['evaluations'] += 1
        try:
            a = records(text, ignore=(cpp,))
            b = records(without)
        except Exception:
            rep.bounded['skipped'] += 1
            continue
        rep.bounded['distinct'].add(hash((text, cpp)))
        if len(rep.bounded['samples']) < 2:
            rep.bounded['samples'].append(dict(input=text[:300], ignored=cpp))
        if sorted(map(repr, a)) != sorted(map(repr, b)):
            extra = [r for r in a if r not in b][:3]
            missing = [r for r in b if r not in a][:3]
            rep.violation('c15:pybind-ignore-vs-delete', 'ignoring %s differs from deleting it: extra %r missing %r' % (cpp, extra, missing),
                          dict(kind='c15', input=text, ignore=cpp, without=without))
        if True:
            try:
                fa, _ = generate(text, ignore=(mname,))
                fb, _ = generate(without)
            except Exception:
                continue
            ma, mb = mask_ids(fa), mask_ids(fb)
            if ma != mb:
                diff = sorted(set(ma) ^ set(mb)) or [p for p in ma if ma[p] != mb.get(p)]
                rep.violation('c15:matlab-ignore-vs-delete', 'MATLAB: ignoring %s differs from deleting it in %s' % (mname, diff[:4]),
                              dict(kind='c15-matlab', input=text, ignore=mname, without=without))


def replay(obj):
    k = obj.get('kind')
    if k == 'c13':
        a, b = ps.generate_pybind(obj['input']), ps.generate_pybind(obj['variant'])
        print('observed: outputs %s' % ('differ' if a != b else 'equal'))
        return 1 if a != b or obj['key'].endswith(('subset', 'permutation')) else 0
    if k == 'c15':
        a = records(obj['input'], ignore=(obj['ignore'],))
        b = records(obj['without'])
        bad = sorted(map(repr, a)) != sorted(map(repr, b))
        print('observed: ignore vs delete %s' % ('differ' if bad else 'agree'))
        return 1 if bad else 0
    if k == 'c15-matlab':
        from props.matlab_e2e import generate
        bad = mask_ids(generate(obj['input'], ignore=(obj['ignore'],))[0]) != mask_ids(generate(obj['without'])[0])
        print('observed: MATLAB ignore vs delete %s' % ('differ' if bad else 'agree'))
        return 1 if bad else 0
    print(obj.get('what'))
    return 1
