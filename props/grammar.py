"""M8: inspection of the live pyparsing grammar graph built by the real code (structural, exact)."""
import ast
import inspect

import pyparsing as pp


def reach(root):
    seen = {}
    stack = [root]
    while stack:
        e = stack.pop()
        if id(e) in seen:
            continue
        seen[id(e)] = e
        for attr in ('exprs',):
            for c in getattr(e, attr, []) or []:
                stack.append(c)
        c = getattr(e, 'expr', None)
        if c is not None and isinstance(c, pp.ParserElement):
            stack.append(c)
        for ig in getattr(e, 'ignoreExprs', []) or []:
            pass
    return list(seen.values())


def checks():
    """-> list of (name, ok, detail)"""
    import gtwrap.interface_parser as ip
    out = []
    rule = ip.Module.rule
    # 1. end-of-input anchor
    ok = isinstance(rule, pp.And) and len(rule.exprs) == 2 and isinstance(rule.exprs[1], pp.StringEnd) \
        and isinstance(rule.exprs[0], pp.ZeroOrMore)
    out.append(('Module.rule is ZeroOrMore(declarations) + StringEnd', ok, type(rule).__name__))
    elems = reach(rule)
    import gtwrap.interface_parser.tokens as tk
    default_region = {id(e) for e in reach(tk.DEFAULT_ARG)}
    elems_nd = [e for e in elems if id(e) not in default_region]
    # 2. packrat memoisation enabled
    out.append(('packrat memoisation enabled', bool(pp.ParserElement._packratEnabled), ''))
    # 3. every element skips white space and carries the comment-ignore expression
    noskip = [str(e)[:40] for e in elems_nd if not getattr(e, 'skipWhitespace', True) and not isinstance(e, (pp.StringEnd,))
              and type(e).__name__ not in ('CharsNotIn', 'Regex', '_SingleCharLiteral', 'Literal', 'White', 'Empty', 'NoMatch', 'QuotedString', 'Word', 'SkipTo')]
    out.append(('all composite elements skip white space', not noskip, noskip[:5]))
    def has_comment_ignore(e):
        return any('cStyleComment' in str(ig) or 'C++ style comment' in str(ig) or 'comment' in str(ig).lower() for ig in getattr(e, 'ignoreExprs', []))
    composite = [e for e in elems_nd if isinstance(e, (pp.And, pp.Or, pp.MatchFirst, pp.ZeroOrMore, pp.OneOrMore, pp.Opt, pp.Forward, pp.DelimitedList if hasattr(pp, 'DelimitedList') else pp.And))]
    missing = [str(e)[:50] for e in composite if not has_comment_ignore(e)]
    out.append(('comment skipping reaches every composite element (incl. Forward rules)', not missing, missing[:5]))
    # 4. flag names are bound to the documented terminals
    want = {'is_const': 'const', 'is_shared_ptr': '*', 'is_ptr': '@', 'is_ref': '&', 'is_virtual': 'virtual'}
    bad = []
    nflags = 0
    for e in elems:
        rn = getattr(e, 'resultsName', None)
        if rn in want:
            nflags += 1
            m = getattr(e, 'match', None)
            if m != want[rn]:
                bad.append((rn, m))
    out.append(('flag result names bound to their terminals (const * @ & virtual)', not bad and nflags >= 9, dict(bad=bad, occurrences=nflags)))
    # 5. terminals that embed white space or span two C++ tokens (known finding C12)
    two = sorted({getattr(e, 'match', '') for e in elems if isinstance(e, (pp.Literal, pp.Keyword)) and
                  (' ' in getattr(e, 'match', '') or getattr(e, 'match', '') in ('()', '[]', 'std::'))})
    out.append(('terminals spanning two tokens', two, two))
    # 6. results-name dataflow: names read by each parse action are defined in the rule, and vice versa
    out += dataflow(ip)
    return out


RULE_CLASSES = ['Typename', 'BasicType', 'CustomType', 'Type', 'TemplatedType', 'Argument', 'ArgumentList', 'ReturnType',
                'GlobalFunction', 'Method', 'StaticMethod', 'Constructor', 'Operator', 'DunderMethod', 'Class', 'Template',
                'TypedefTemplateInstantiation', 'Variable', 'Enumerator', 'Enum', 'Include', 'ForwardDeclaration', 'Namespace']


def names_in(e, stop_at_actions=True, top=True):
    """results names defined inside e, not descending into sub-rules that have their own parse action"""
    out = set()
    rn = getattr(e, 'resultsName', None)
    has_action = bool(getattr(e, 'parseAction', None))
    if rn and not (not top and has_action and rn in ('namespaces_and_name', 'enumerator')):
        out.add(rn)      # (a sub-rule's own internal name is consumed by that sub-rule's action)
    if not top and stop_at_actions and has_action:
        return out
    if isinstance(e, pp.Forward) and not top:
        return out
    for c in getattr(e, 'exprs', []) or []:
        out |= names_in(c, stop_at_actions, False)
    c = getattr(e, 'expr', None)
    if c is not None and isinstance(c, pp.ParserElement):
        out |= names_in(c, stop_at_actions, False)
    return out


def dataflow(ip):
    import gtwrap.interface_parser.classes as cl
    import gtwrap.interface_parser.template as tp
    out = []
    mods = [ip, cl, tp]
    rules = {}
    for name in RULE_CLASSES:
        c = getattr(ip, name, None) or getattr(cl, name, None)
        if c is not None and hasattr(c, 'rule'):
            rules[name] = c.rule
    rules['Class.Members'] = ip.Class.Members.rule
    rules['Template.TypenameAndInstantiations'] = ip.Template.TypenameAndInstantiations.rule
    unread, undefined = {}, {}
    import sys
    sys.path.insert(0, __import__('os').path.dirname(__import__('os').path.dirname(__import__('os').path.abspath(__file__))))
    from pyvc.extract import Repo
    repo = Repo()
    for name, rule in rules.items():
        r = rule
        if isinstance(r, pp.Forward):
            r = r.expr
        if not (getattr(r, 'parseAction', None) or []):
            continue
        defined = names_in(r)
        node = repo.class_consts.get((name, 'rule'))
        read = set()
        if node is None:
            # Forward rules: `rule << (...)` statements
            for (c, n), v in repo.class_consts.items():
                pass
        lambdas = []
        src_cls = None
        for rel, (src, tree) in repo.files.items():
            for cd in ast.walk(tree):
                if isinstance(cd, ast.ClassDef) and cd.name == name.split('.')[-1]:
                    src_cls = cd
                    for n in ast.walk(cd):
                        if isinstance(n, ast.Call) and isinstance(n.func, ast.Attribute) and n.func.attr == 'setParseAction':
                            # only the action of this class' own rule (not of nested classes)
                            lambdas.append((cd, n.args[0]))
        for cd, lam in lambdas[:1]:
            for n in ast.walk(lam):
                if isinstance(n, ast.Attribute) and isinstance(n.value, ast.Name) and n.value.id == 't':
                    read.add(n.attr)
                if isinstance(n, ast.Call) and isinstance(n.func, ast.Attribute) and n.func.attr == 'from_parse_result':
                    args = n.args
                    for m in cd.body:
                        if isinstance(m, ast.FunctionDef) and m.name == 'from_parse_result':
                            p0 = m.args.args[0].arg
                            for q in ast.walk(m):
                                if isinstance(q, ast.Attribute) and isinstance(q.value, ast.Name) and q.value.id == p0:
                                    read.add(q.attr)
                            if args and isinstance(args[0], ast.Attribute):
                                read.add(args[0].attr)
                if isinstance(n, ast.Call) and isinstance(n.func, ast.Name) and n.args and isinstance(n.args[0], ast.Name) and n.args[0].id == 't':
                    # the whole ParseResults is handed to a constructor (Typename(t), BasicType(t)): positional use
                    read |= defined
        read.discard('asList')
        ur = defined - read
        ud = {x for x in read if x not in defined}
        if ur:
            unread[name] = sorted(ur)
        if ud:
            undefined[name] = sorted(ud)
    out.append(('every captured results name is read by its parse action (no silently dropped token)', not unread, unread))
    out.append(('every results name read by a parse action is defined in its rule', not undefined, undefined))
    return out
