import argparse
import importlib
import json
import os
import sys
import traceback

from props.common import Report, ROOT


def main():
    ap = argparse.ArgumentParser()
    ap.add_argument('pid')
    ap.add_argument('--tier', default=os.environ.get('VERIF_TIER', 'quick'))
    ap.add_argument('--replay')
    ap.add_argument('--rebaseline', action='store_true')
    args = ap.parse_args()
    os.chdir('/tmp')     # so that nothing resolves relative to /verif or /repo by accident
    mod = importlib.import_module('props.' + args.pid)
    if args.replay:
        with open(args.replay) as f:
            obj = json.load(f)
        sys.exit(mod.replay(obj))
    seed = int(os.environ.get('VERIF_SEED', '0') or 0)
    rep = Report(args.pid, args.tier if args.tier in ('quick', 'thorough') else 'quick', seed)
    try:
        mod.run(rep, args)
        from props import findings
        findings.report_known(rep)
    except Exception:
        traceback.print_exc()
        rep.crashes.append(traceback.format_exc())
    code = rep.finish('./check %s --tier %s' % (args.pid, rep.tier))
    sys.exit(code)


if __name__ == '__main__':
    main()
