"""C09 -- pybind side: proofs of the leaf emitters + run-time contracts + reference-binding oracle."""
from props import pyprops, pybind_scope as ps

PID = 'C09'


def replay(obj):
    if obj.get('kind') == 'pybind-e2e':
        return ps.replay_pybind(obj)
    if obj.get('kind') == 'pybind-tu-sequence':
        return ps.replay_tu(obj)
    print('replay:', obj.get('what'))
    print(obj.get('solver_output', '') or obj)
    return 1


def run(rep, args):
    rep.level = 'other'
    pr = pyprops.prove(rep, PID, args)
    n = 120 if rep.tier == 'quick' else 1500
    if pr['demoted'] or pr['regressions']:
        n *= 4
    ps.run_oracle(rep, n, pyprops.CATS[PID])
    ps.tu_sequence(rep)
    if PID in ('C03', 'C04'):
        pyprops.monitors(rep, 60 if rep.tier == 'quick' else 600)
    pyprops.report_regressions(rep, pr)
    rep.bounded['rule'] = ('seeded random modules from the reference grammar (gen/iface.py), each once as generated and once sanitised '
                           '(outside the characterising predicates of the known findings), wrapped by the real PybindWrapper with top '
                           'namespace [""] and, for a quarter, ["", ns]; the emitted text is read back into binding records and compared '
                           'with the bindings declared by the reference semantics (gen/reference.py). distinct = distinct (text, top) pairs '
                           'that were generated and compared; inputs matching a known-finding predicate are skipped and counted. Multi-file projects: 4 sequences of '
                           '2-3 files wrapped by one wrapper object with serialization on; each unit may export only classes it binds')
    rep.explanation = EXPL
    rep.assumptions += ASSUME


EXPL = 'type spellings (Typename/Type/TemplatedType.to_cpp), qualification and the keyword-argument / lambda-parameter agreement are proved; balance, arity agreement, declared-before-use module variables and qualification are checked on real output by the reader (which rejects malformed text) on the bounded scope; no compiler is run.'
ASSUME = ['the reference semantics gen/reference.py (written from DOCS.md and the property statements) is the oracle of the bounded part',
          'C++ / pybind11 run-time semantics of the emitted text is not verified (no compiler is run)']
