"""C19 -- parsing cost stays polynomial in nesting depth and file size (bounded, call counting)."""
import sys


def count_calls(text):
    import pyparsing as pp
    import gtwrap.interface_parser as ip
    pp.ParserElement.reset_cache() if hasattr(pp.ParserElement, 'reset_cache') else None
    n = [0]
    orig = pp.ParserElement._parseNoCache

    def counting(self, instring, loc, doActions=True, callPreParse=True):
        n[0] += 1
        return orig(self, instring, loc, doActions, callPreParse)
    pp.ParserElement._parseNoCache = counting
    direct = pp.ParserElement._parse is orig          # memoisation is off: matchers are entered without going through the cache
    if direct:
        pp.ParserElement._parse = counting
    budget = [BUDGET]

    def counting_budget(self, instring, loc, doActions=True, callPreParse=True):
        n[0] += 1
        if n[0] > budget[0]:
            raise OverBudget()
        return orig(self, instring, loc, doActions, callPreParse)
    pp.ParserElement._parseNoCache = counting_budget
    if direct:
        pp.ParserElement._parse = counting_budget
    try:
        ip.Module.parseString(text)
    except OverBudget:
        pass
    finally:
        pp.ParserElement._parseNoCache = orig
        if direct:
            pp.ParserElement._parse = orig
    return n[0]


BUDGET = 3000000       # matcher invocations after which a parse is abandoned (far above every limit below)


class OverBudget(BaseException):
    pass


def ns_family(d, comments=0):
    head = 'namespace ' + '/* a */ ' * comments
    return ''.join('%sn%d %s{\n' % (head, i, '/* b */ ' * comments) for i in range(d)) + 'class C { C(); };\n' + '}\n' * d


def tpl_family(d):
    t = 'double'
    for i in range(d):
        t = 'std::vector<%s>' % t
    return 'void f(%s x);\nclass A { %s g() const; };\n' % (t, t)


def size_family(n):
    return ''.join('class C%d { C%d(); void f(int a, double b = 1.0) const; static C%d Make(); };\n' % (i, i, i) for i in range(n))


def replay(obj):
    print('replay:', obj.get('what'))
    if 'limit' not in obj:
        import pyparsing as pp
        import gtwrap.interface_parser as ip
        try:
            ip.Module.parseString(obj.get('input', 'class Broken { Broken(;'))
        except Exception:
            pass
        off = not pp.ParserElement._packratEnabled
        print('observed: memoisation %s after a rejected input' % ('OFF' if off else 'on'))
        return 1 if off else 0
    import gtwrap.interface_parser as ip
    try:                                    # same history as the check: a rejected input earlier in the process
        ip.Module.parseString('class Broken { Broken(;')
    except Exception:
        pass
    c = count_calls(obj['input'])
    print('observed: %d matcher invocations (limit %s)' % (c, obj.get('limit')))
    return 1 if c > obj.get('limit', 0) else 0


def run(rep, args):
    rep.level = 'exploration'
    rep.classify(rebaseline=args.rebaseline)
    import pyparsing as pp
    import gtwrap.interface_parser as ip
    ok = bool(pp.ParserElement._packratEnabled)
    rep.structural.append(('packrat memoisation enabled after importing the parser', ok, ''))
    if not ok:
        rep.violation('struct:packrat', 'packrat memoisation is not enabled', dict(obligation='packrat'), concrete=False)
    depths = [2, 4, 6, 8, 10, 12] if rep.tier == 'quick' else [2, 4, 6, 8, 10, 12, 16, 20]
    fams = [('namespace-depth', lambda d: ns_family(d)), ('namespace-depth-commented', lambda d: ns_family(d, 2)),
            ('template-argument-depth', tpl_family)]
    # a failed parse earlier in the process must not change the cost of later parses
    try:
        ip.Module.parseString('class Broken { Broken(;')
    except Exception:
        pass
    ok = bool(pp.ParserElement._packratEnabled) and pp.ParserElement._parse is not pp.ParserElement._parseNoCache
    rep.structural.append(('packrat memoisation still enabled after a rejected input', ok, ''))
    if not ok:
        rep.violation('struct:packrat-after-failure', 'memoisation is switched off once an input has been rejected: every later parse in the process is exponential in nesting depth',
                      dict(obligation='packrat stays enabled', input='class Broken { Broken(;'), concrete=False)
    for name, fam in fams:
        prev = None
        for d in depths:
            text = fam(d)
            c = count_calls(text)
            rep.bounded['evaluations'] += 1
            rep.bounded['distinct'].add((name, d))
            limit = 4000 * (d + 1) * (d + 1)          # generous polynomial envelope (measured on the pinned tree: about 1450*(d+1))
            if c > limit:
                rep.violation('cost:%s' % name, '%s at depth %d needs %d matcher invocations (> %d)' % (name, d, c, limit),
                              dict(kind='cost', input=text, limit=limit, family=name, depth=d))
                break
            if prev is not None and c > prev * 3 + 2000:
                rep.violation('cost-growth:%s' % name, '%s: cost grows from %d to %d between consecutive depths (%d)' % (name, prev, c, d),
                              dict(kind='cost', input=text, limit=prev * 3 + 2000, family=name, depth=d))
                break
            prev = c
            if len(rep.bounded['samples']) < 4:
                rep.bounded['samples'].append(dict(family=name, depth=d, matcher_invocations=c))
    prev = None
    for n in ([25, 50, 100, 200] if rep.tier == 'quick' else [25, 50, 100, 200, 400]):
        c = count_calls(size_family(n))
        rep.bounded['evaluations'] += 1
        rep.bounded['distinct'].add(('size', n))
        if prev is not None and c > prev * 2.6:
            rep.violation('cost-growth:size', 'doubling the number of declarations to %d multiplies the cost by %.1f' % (n, c / prev),
                          dict(kind='cost', input=size_family(n), limit=int(prev * 2.6), family='size', depth=n))
        prev = c
    rep.bounded['rule'] = ('ghost cost = number of pyparsing _parseNoCache invocations (deterministic, no timing) on the families namespace depth d, namespace depth d with '
                           'two comments in every header, template-argument depth d (d up to 12 quick / 20 thorough), n declarations (n up to 200 / 400), after a failed '
                           'parse in the same process; cost <= 4000*(d+1)^2 and cost(next depth) <= 3*cost + 2000, doubling n at most x2.6. distinct = (family, size) points')
    rep.explanation = 'bounded exploration only: an unbounded complexity proof of a third-party matcher with a FIFO cache is out of reach of this technique'
