"""Bounded stand-in helpers: run the real MATLAB generator in memory and read its output back."""
import builtins
import io
import os
import re
import sys


def make_wrapper(module_name='mod', ignore=('',), boost=False, top=('',)):
    """a real MatlabWrapper; the git-ignored build product matlab_wrapper.tpl is supplied in memory if missing"""
    from gtwrap.matlab_wrapper import MatlabWrapper
    import gtwrap.matlab_wrapper.wrapper as w
    tpl = os.path.join(os.path.dirname(os.path.realpath(w.__file__)), 'matlab_wrapper.tpl')
    if os.path.exists(tpl):
        return MatlabWrapper(module_name=module_name, top_module_namespace=list(top), ignore_classes=list(ignore),
                             use_boost_serialization=boost)
    real_open = builtins.open

    def fake_open(path, *a, **k):
        if str(path) == tpl:
            return io.StringIO('#include <gtwrap/matlab.h>\n#include <map>\n')
        return real_open(path, *a, **k)
    builtins.open = fake_open
    try:
        return MatlabWrapper(module_name=module_name, top_module_namespace=list(top), ignore_classes=list(ignore),
                             use_boost_serialization=boost)
    finally:
        builtins.open = real_open


def generate(text, module_name='mod', ignore=('',), boost=False):
    """-> (files: dict relative path -> text, wrapper).  Same steps as MatlabWrapper.wrap without touching disk."""
    import gtwrap.interface_parser as parser
    import gtwrap.template_instantiator as instantiator
    w = make_wrapper(module_name, ignore, boost)
    module = instantiator.instantiate_namespace(parser.Module.parseString(text))
    w.wrap_namespace(module)
    w.generate_wrapper(module)
    files = {}

    def walk(cc, path):
        for c in cc:
            if isinstance(c, list):
                if not c:
                    continue
                folder = os.path.join(path, c[0][0])
                for sub in c:
                    walk(sub[1], folder)
            elif isinstance(c[1], list):
                folder = os.path.join(path, c[0])
                for sub in c[1]:
                    files[os.path.join(folder, sub[0])] = sub[1]
            else:
                files[os.path.join(path, c[0])] = c[1]
    walk(w.content, '')
    return files, w


CALL = re.compile(r'(\w+)_wrapper\((\d+)')
CASE = re.compile(r'case (\d+):\s*\n\s*(\w+)\(nargout')
DEFN = re.compile(r'^void (\w+)\(int nargout', re.M)


def c05_check(files, module_name='mod'):
    """text-level statement of C05 on one generated toolbox; returns a list of (key, message)"""
    bad = []
    cpp_name = module_name + '_wrapper.cpp'
    cpps = [v for k, v in files.items() if k.endswith(cpp_name)]
    if not cpps:
        return [('no-cpp', 'no MEX source generated')]
    cpp = cpps[-1]
    sites = []
    for path, text in files.items():
        if not path.endswith('.m'):
            continue
        lines = text.split('\n')
        fn = None
        for ln in lines:
            m = re.match(r'\s*function\s+(?:[\w\[\], ]+=\s*)?([\w.]+)\s*\(', ln)
            if m:
                fn = m.group(1)
            for c in CALL.finditer(ln):
                if c.group(1) == module_name:
                    sites.append((int(c.group(2)), path, fn, ln.strip()))
    ids = sorted(s[0] for s in sites)
    n = len(ids)
    if ids != list(range(n)):
        bad.append(('ids-not-contiguous-unique', 'call-site ids %s' % ids[:40]))
    cases = [(int(a), b) for a, b in CASE.findall(cpp)]
    case_ids = sorted(a for a, _ in cases)
    if case_ids != sorted(set(ids)):
        bad.append(('cases-differ-from-call-sites', 'cases %s vs call sites %s' % (case_ids[:40], ids[:40])))
    defs = DEFN.findall(cpp)
    defs = [d for d in defs if d not in ('_deleteAllObjects', 'mexFunction') and not d.endswith('_RTTIRegister')]
    for d in set(defs):
        if defs.count(d) > 1:
            bad.append(('routine-defined-twice', d))
    targets = [b for _, b in cases]
    for t in targets:
        if t not in defs:
            bad.append(('case-target-undefined', t))
        if targets.count(t) > 1:
            bad.append(('routine-reached-from-two-cases', t))
    for d in defs:
        if d not in targets:
            bad.append(('routine-without-case', d))
    case_of = dict(cases)
    for i, path, fn, line in sites:
        t = case_of.get(i)
        if t is None:
            continue
        stem = os.path.basename(path)[:-2]
        pk = ''.join(p[1:] for p in os.path.dirname(path).split(os.sep) if p.startswith('+'))
        if not t.endswith('_%d' % i):
            bad.append(('routine-name-suffix', '%s called with id %d' % (t, i)))
        role = None
        if fn is None:
            continue
        if 'upcastFromVoid' in t:
            role = 'upcast'
            if 'my_ptr = ' not in line or 'varargin{2}' not in line:
                bad.append(('role-mismatch', 'id %d: up-cast routine %s called from %r' % (i, t, line)))
            continue
        body = routine_body(cpp, t) or ''
        cls_prefix = pk + stem
        if fn == stem and 'my_ptr)' in line and 'varargin{2}' not in line:
            kind, must = 'collector', ('collector_', '.insert(self)')
        elif fn == stem and 'my_ptr' in line:
            kind, must = 'constructor', ('new Shared(new',)
        elif fn == 'delete':
            kind, must = 'deconstructor', ('delete self;',)
        elif fn.startswith('get.'):
            kind, must = 'getter', ('obj->%s' % fn[4:], 'out[0]')
        elif fn.startswith('set.'):
            kind, must = 'setter', ('obj->%s = ' % fn[4:],)
        elif fn == 'string_serialize':
            kind, must = 'serialize', ('out_archive',)
        elif fn == 'string_deserialize':
            kind, must = 'deserialize', ('in_archive',)
        elif 'this, varargin' in line:
            kind, must = 'method', ('obj->',)
        elif 'classdef' in files[path]:
            kind, must = 'static', ('::',)
        else:
            kind, must = 'function', ('(',)
        if kind != 'function' and not t.startswith(cls_prefix):
            bad.append(('role-mismatch', 'id %d in %s/%s reaches routine %s of another class' % (i, path, fn, t)))
        for piece in must:
            if piece not in body:
                if kind in ('method', 'static', 'getter', 'setter') and re.search(
                        r'_(constructor|deconstructor|collectorInsertAndMakeBase)_\d+$', t):
                    bad.append(('role-name-collision', '%s %s of %s is served by structural routine %s' % (kind, fn, path, t)))
                else:
                    bad.append(('routine-body-mismatch', 'id %d in %s/%s (%s): routine %s lacks %r' % (i, path, fn, kind, t, piece)))
                break
    return bad


def routine_body(cpp, name):
    m = re.search(r'^void %s\(int nargout[^\n]*\n\{(.*?)^\}' % re.escape(name), cpp, re.S | re.M)
    return m.group(1) if m else None
