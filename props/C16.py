"""C16 -- multiple interface files and the command-line scripts compose consistently."""
import os
import re
import shutil
import subprocess
import sys
import tempfile

from pyvc.extract import REPO

MAIN = "namespace gtsam {\nclass Main {\n  Main();\n  void serialize() const;\n};\n}\n"
PARTS = {
    'alpha': "namespace gtsam {\nclass Alpha {\n  Alpha(int n = 2);\n  double get() const;\n  void serialize() const;\n};\ndouble twice(double x);\n}\n",
    'beta': "namespace gtsam {\nnamespace sub {\nclass Beta {\n  Beta();\n};\n}\n}",
}
TPL = '{module_def} {{\n{includes}\n{boost_class_export}\n{wrapped_namespace}\n{submodules}\n{submodules_init}\n}}\n'
ENDINGS = ['\n', '', '\n\n', '  ', '\n/* trailing */', '\n// trailing\n', '\n// c', ' // x; class']


def pybind(rep, base):
    from gtwrap.pybind_wrapper import PybindWrapper

    def fresh(boost=True):
        return PybindWrapper(module_name='mod', top_module_namespaces=['', 'gtsam'], ignore_classes=[''], use_boost_serialization=boost,
                             module_template=TPL)
    cwd = os.getcwd()
    try:
        os.chdir(base)
        with open('mod.i', 'w', encoding='utf-8') as f:
            f.write(MAIN)
        for k, t in PARTS.items():
            with open(k + '.i', 'w', encoding='utf-8') as f:
                f.write(t)
        for order in (['alpha', 'beta'], ['beta', 'alpha'], ['alpha'], []):
            w = fresh()
            w.wrap(['mod.i'] + [k + '.i' for k in order], 'mod.cpp')
            rep.bounded['evaluations'] += 1
            rep.bounded['distinct'].add(('pybind', tuple(order)))
            out = open('mod.cpp', encoding='utf-8').read()
            decls = re.findall(r'^void (\w+)\(py::module_ &\);', out, re.M)
            calls = re.findall(r'^(\w+)\(m_\);', out, re.M)
            if decls != order or calls != order or 'PYBIND11_MODULE(mod, m_)' not in out:
                rep.violation('multi:main-initialisers', 'main file declares %s and calls %s for parts %s' % (decls, calls, order),
                              dict(kind='c16-pybind', order=order))
            for k in order:
                w.wrap_submodule(k + '.i')
                rep.bounded['evaluations'] += 1
                part = open(k + '.cpp', encoding='utf-8').read()
                alone = fresh().wrap_file(PARTS[k], module_name=k)
                if 'void %s(py::module_ &m_)' % k not in part:
                    rep.violation('multi:part-definition', 'part %s does not define its initialiser' % k, dict(kind='c16-pybind', order=order, part=k))
                if part != alone:
                    rep.violation('multi:part-differs-from-alone', 'wrapping part %s after the main file differs from wrapping its text alone' % k,
                                  dict(kind='c16-pybind', order=order, part=k))
    finally:
        os.chdir(cwd)


def matlab(rep, base):
    from props.matlab_e2e import make_wrapper
    f1 = "namespace ns {\nclass A {\n  A();\n  void f(int x = 1) const;\n};\n}"
    f2 = "namespace other {\nclass B {\n  B();\n};\n}\nclass C {\n  C(double d);\n};"
    f3 = "double g(double x);"
    for e1 in ENDINGS:
        for e2 in ENDINGS[:3]:
            d = tempfile.mkdtemp(prefix='c16m_', dir=base)
            texts = [f1 + e1, f2 + e2, f3]
            paths = []
            for i, t in enumerate(texts):
                p = os.path.join(d, 'p%d.i' % i)
                with open(p, 'w') as f:
                    f.write(t)
                paths.append(p)
            one = os.path.join(d, 'one.i')
            with open(one, 'w') as f:
                f.write('\n'.join(texts))
            rep.bounded['evaluations'] += 1
            rep.bounded['distinct'].add(('matlab', e1, e2))
            try:
                make_wrapper('m').wrap(paths, os.path.join(d, 'multi'))
                make_wrapper('m').wrap([one], os.path.join(d, 'single'))
            except Exception as e:
                rep.violation('matlab-multi:rejected', 'a list of files is rejected (%s) although their declarations in sequence are fine' % str(e)[:100],
                              dict(kind='c16-matlab', endings=[e1, e2]))
                continue
            a, b = tree(os.path.join(d, 'multi')), tree(os.path.join(d, 'single'))
            if a != b:
                rep.violation('matlab-multi:differs', 'wrapping the file list differs from wrapping one file with the declarations in sequence: %s'
                              % sorted(set(a) ^ set(b))[:4], dict(kind='c16-matlab', endings=[e1, e2]))


BLOCKS = ["namespace pre {\ntypedef geo::Box<int> BoxI;\n}",
          "namespace geo {\ntemplate<T>\nclass Box {\n  Box();\n  T get() const;\n};\n}",
          "namespace app {\ntypedef geo::Box<double> BoxD;\nclass User {\n  User();\n  void take(const geo::BoxD& b, double s = 1.5);\n};\n}",
          "virtual class C : app::User {\n  C(double d);\n};",
          "app::User make(const C& c);"]


def matlab_splits(rep, base):
    """declarations that refer to one another across files: every split of the block sequence into consecutive files equals the single file"""
    import itertools
    from props.matlab_e2e import make_wrapper
    d0 = tempfile.mkdtemp(prefix='c16s_', dir=base)
    one = os.path.join(d0, 'one.i')
    with open(one, 'w') as f:
        f.write('\n'.join(BLOCKS))
    make_wrapper('m').wrap([one], os.path.join(d0, 'single'))
    ref = tree(os.path.join(d0, 'single'))
    for cuts in itertools.product((0, 1), repeat=len(BLOCKS) - 1):
        if not any(cuts):
            continue
        groups, cur = [], [BLOCKS[0]]
        for c, b in zip(cuts, BLOCKS[1:]):
            if c:
                groups.append(cur)
                cur = [b]
            else:
                cur.append(b)
        groups.append(cur)
        for ending in ('\n', ''):
            d = tempfile.mkdtemp(prefix='c16s_', dir=base)
            paths = []
            for i, g in enumerate(groups):
                p = os.path.join(d, 'p%d.i' % i)
                with open(p, 'w') as f:
                    f.write('\n'.join(g) + ending)
                paths.append(p)
            rep.bounded['evaluations'] += 1
            rep.bounded['distinct'].add(('matlab-split', cuts, ending))
            try:
                make_wrapper('m').wrap(paths, os.path.join(d, 'multi'))
            except Exception as e:
                rep.violation('matlab-multi:rejected', 'a list of files is rejected (%s) although their declarations in sequence are fine' % str(e)[:100],
                              dict(kind='c16-matlab-split', cuts=list(cuts), ending=ending))
                continue
            a = tree(os.path.join(d, 'multi'))
            if a != ref:
                rep.violation('matlab-multi:differs', 'wrapping the file list differs from wrapping one file with the declarations in sequence: %s'
                              % sorted(k for k in set(a) | set(ref) if a.get(k) != ref.get(k))[:4], dict(kind='c16-matlab-split', cuts=list(cuts), ending=ending))


def tree(d):
    out = {}
    for root, _, files in os.walk(d):
        for f in files:
            p = os.path.join(root, f)
            out[os.path.relpath(p, d)] = open(p).read()
    return out


def scripts(rep, base):
    repo = os.environ.get('VERIF_REPO', REPO)
    env = dict(os.environ, PYTHONPATH=repo)
    from gtwrap.pybind_wrapper import PybindWrapper
    src = os.path.join(base, 'cli.i')
    text = "namespace ns1 {\nnamespace ns2 {\nclass K {\n  K();\n  void serialize() const;\n};\n}\nclass L {\n  L();\n};\n}\nclass G {\n  G();\n};\n"
    open(src, 'w').write(text)
    tpl = os.path.join(base, 'cli.tpl')
    open(tpl, 'w').write(TPL)
    for top, ignore, boost in [('', [''], False), ('ns1', [''], True), ('ns1::ns2', ['ns1::ns2::K'], False), ('ns1', ['ns1::L'], True)]:
        out = os.path.join(base, 'cli_%s_%d.cpp' % (top.replace('::', '_'), boost))
        cmd = [sys.executable, os.path.join(repo, 'scripts', 'pybind_wrap.py'), '--src', src, '--module_name', 'mod', '--out', out,
               '--template', tpl, '--top_module_namespaces', top, '--ignore'] + ignore + (['--use-boost-serialization'] if boost else [])
        p = subprocess.run(cmd, capture_output=True, text=True, env=env)
        rep.bounded['evaluations'] += 1
        rep.bounded['distinct'].add(('script', top, tuple(ignore), boost))
        tops = [''] + top.split('::') if top else ['']
        api = PybindWrapper(module_name='mod', top_module_namespaces=tops, ignore_classes=ignore, use_boost_serialization=boost,
                            module_template=TPL).wrap_file(text, module_name='mod', submodules=[])
        if p.returncode != 0:
            rep.violation('script:pybind-fails', 'scripts/pybind_wrap.py fails for top=%r ignore=%r: %s' % (top, ignore, p.stderr[-200:]),
                          dict(kind='c16-script', top=top, ignore=ignore, boost=boost))
            continue
        got = open(out).read()
        if got != api:
            rep.violation('script:pybind-differs-from-api', 'scripts/pybind_wrap.py output differs from the API for top=%r ignore=%r boost=%r' % (top, ignore, boost),
                          dict(kind='c16-script', top=top, ignore=ignore, boost=boost))
    # a part of a multi-file module: --is_submodule writes the file that --out names (run from another directory)
    other = os.path.join(base, 'elsewhere')
    os.makedirs(other, exist_ok=True)
    part_out = os.path.join(base, 'parts', 'cli_part.cpp')
    os.makedirs(os.path.dirname(part_out), exist_ok=True)
    cmd = [sys.executable, os.path.join(repo, 'scripts', 'pybind_wrap.py'), '--src', src, '--module_name', 'mod', '--out', part_out,
           '--template', tpl, '--top_module_namespaces', 'ns1', '--ignore', '', '--is_submodule']
    p = subprocess.run(cmd, capture_output=True, text=True, env=env, cwd=other)
    rep.bounded['evaluations'] += 1
    rep.bounded['distinct'].add(('script', 'submodule-out'))
    api = PybindWrapper(module_name='mod', top_module_namespaces=['', 'ns1'], ignore_classes=[''], use_boost_serialization=False,
                        module_template=TPL).wrap_file(text, module_name='cli')
    if p.returncode != 0:
        rep.violation('script:pybind-submodule-fails', 'scripts/pybind_wrap.py --is_submodule fails: %s' % p.stderr[-200:],
                      dict(kind='c16-script', mode='submodule'))
    elif not os.path.exists(part_out):
        rep.violation('script:pybind-submodule-out-ignored', 'scripts/pybind_wrap.py --is_submodule does not write the file named by --out (found %s in the working directory)'
                      % sorted(os.listdir(other)), dict(kind='c16-script', mode='submodule'))
    elif open(part_out).read() != api:
        rep.violation('script:pybind-submodule-differs-from-api', 'scripts/pybind_wrap.py --is_submodule output differs from wrap_file of the same text',
                      dict(kind='c16-script', mode='submodule'))
    # MATLAB script
    from props.matlab_e2e import make_wrapper
    tplf = os.path.join(repo, 'gtwrap', 'matlab_wrapper', 'matlab_wrapper.tpl')
    if os.path.exists(tplf):
        for ignore, boost in [(['ns1::L'], False), ([''], True)]:
            out = os.path.join(base, 'ml_cli_%d' % boost)
            cmd = [sys.executable, os.path.join(repo, 'scripts', 'matlab_wrap.py'), '--src', src, '--module_name', 'mod', '--out', out,
                   '--ignore'] + ignore + (['--use-boost-serialization'] if boost else [])
            p = subprocess.run(cmd, capture_output=True, text=True, env=env)
            rep.bounded['evaluations'] += 1
            rep.bounded['distinct'].add(('mscript', tuple(ignore), boost))
            if p.returncode != 0:
                rep.violation('script:matlab-fails', 'scripts/matlab_wrap.py fails: %s' % p.stderr[-200:], dict(kind='c16-script', ignore=ignore, boost=boost))
                continue
            api_out = os.path.join(base, 'ml_api_%d' % boost)
            make_wrapper('mod', ignore=ignore, boost=boost).wrap([src], api_out)
            if tree(out) != tree(api_out):
                rep.violation('script:matlab-differs-from-api', 'scripts/matlab_wrap.py output differs from the API (ignore=%r boost=%r)' % (ignore, boost),
                              dict(kind='c16-script', ignore=ignore, boost=boost))
    # the namespace option: '' -> [''], 'a::b' -> ['', 'a', 'b'] (structural, from the script source)
    for script in ('pybind_wrap.py', 'matlab_wrap.py'):
        s = open(os.path.join(repo, 'scripts', script)).read()
        ok = 'top_module_namespaces = args.top_module_namespaces.split("::")' in s and \
            "if top_module_namespaces[0]:\n        top_module_namespaces = [''] + top_module_namespaces" in s.replace('    if top', 'if top')
        rep.structural.append(('%s: namespace option split on :: with the leading global namespace' % script, ok, ''))
        if not ok:
            rep.violation('struct:namespace-option:' + script, '%s no longer converts --top_module_namespaces as documented' % script,
                          dict(obligation='namespace option plumbing', script=script), concrete=False)


def replay(obj):
    print('replay: multi-file / subprocess scenario; re-run ./check C16 :', obj.get('what'))
    return 1


def run(rep, args):
    rep.level = 'other'
    rep.classify(rebaseline=args.rebaseline)
    base = tempfile.mkdtemp(prefix='c16_')
    try:
        pybind(rep, base)
        matlab(rep, base)
        matlab_splits(rep, base)
        scripts(rep, base)
    finally:
        shutil.rmtree(base, ignore_errors=True)
    rep.bounded['rule'] = ('pybind: a main file with 0..2 parts in both orders wrapped by one wrapper object (serialization on): initialiser declarations and calls '
                           'in order, each part defines void <stem>(py::module_ &m_) and equals wrapping its text alone; MATLAB: 3 files with 6x3 combinations of final '
                           'characters (newline, none, blank, trailing block comment, trailing line comment with newline) vs one file holding the declarations in sequence; '
                           'scripts: 4 pybind and 2 MATLAB option combinations (--top_module_namespaces depth 0..2, --ignore, --use-boost-serialization) run as '
                           'subprocesses vs the API. distinct = distinct scenarios')
    rep.explanation = ('composition is exercised on a bounded set of scenarios on real files and real subprocesses; the namespace-option conversion is located in the '
                       'script sources (structural).')
    rep.assumptions += ['argparse semantics', 'the parts are not compiled / linked']
