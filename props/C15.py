"""C15 -- relational bounded check on real generator output (see props/relational.py)."""
from props import relational as rel, pyprops

PID = 'C15'


def replay(obj):
    return rel.replay(obj)


def run(rep, args):
    rep.level = 'other'
    pr = pyprops.prove(rep, PID, args)
    n = 200 if rep.tier == 'quick' else 3000
    (rel.c13 if PID == 'C13' else rel.c15)(rep, n)
    pyprops.report_regressions(rep, pr)
    rep.bounded['rule'] = 'for seeded sanitised modules and one class X per module (preferring clashing simple names and template instantiations): pybind output with ignore=[X] equals output of the module with X deleted, and so does the MATLAB toolbox (gateway ids masked). distinct = distinct (text, X) pairs'
    rep.explanation = ('ignore == delete is a relational property of two runs; decided on the bounded scope for both generators (classes at global scope and in '
                       'namespaces, plain and template instantiations). Proved for all inputs: an ignored forward-declared class binds nothing (pybind) and an '
                       'ignored class gets no collector, clean-up block or RTTI entry in the MEX preamble.')
    rep.assumptions += ['bounded relational check only: the ownership / frame proof of the instantiator is not built (instantiate_type mutates an aliased deep copy)']
