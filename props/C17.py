"""C17 -- embedded docstrings are the right text, correctly escaped, change nothing else."""
import itertools
import os
import re
import shutil
import tempfile


def cpp_decode(body):
    """decode the inside of a C++ narrow string literal into text (reference decoder: source characters and \\u / \\U as
    UTF-8, simple escapes, octal (at most three digits) and greedy \\x as single bytes; the bytes are then read as UTF-8)"""
    out = bytearray()
    i, n = 0, len(body)
    simple = {'n': '\n', 't': '\t', 'r': '\r', '0': '\0', '\\': '\\', '"': '"', "'": "'", 'a': '\a', 'b': '\b', 'f': '\f', 'v': '\v', '?': '?'}
    while i < n:
        ch = body[i]
        if ch == '"':
            raise ValueError('unescaped quote ends the literal early')
        if ch == '\n':
            raise ValueError('raw newline inside a string literal')
        if ch != '\\':
            out += ch.encode('utf-8')
            i += 1
            continue
        i += 1
        if i >= n:
            raise ValueError('dangling backslash')
        e = body[i]
        if e == 'x':
            j = i + 1
            while j < n and body[j] in '0123456789abcdefABCDEF':
                j += 1
            if j == i + 1:
                raise ValueError('\\x without digits')
            v = int(body[i + 1:j], 16)
            if v > 0xff:
                raise ValueError('\\x escape out of range for char')
            out.append(v)
            i = j
        elif e == 'u' or e == 'U':
            k = 4 if e == 'u' else 8
            out += chr(int(body[i + 1:i + 1 + k], 16)).encode('utf-8')
            i += 1 + k
        elif e in '01234567':
            j = i
            while j < n and j < i + 3 and body[j] in '01234567':
                j += 1
            v = int(body[i:j], 8)
            if v > 0xff:
                raise ValueError('octal escape out of range for char')
            out.append(v)
            i = j
        elif e in simple:
            out += simple[e].encode('utf-8')
            i += 1
        else:
            raise ValueError('unknown escape \\%s' % e)
    return bytes(out).decode('utf-8')


def escape(text):
    """the escaping the generator applies (the real function)"""
    from gtwrap.pybind_wrapper import PybindWrapper
    return PybindWrapper._cpp_string_literal(text)


CLASSES = ["'", '"', '\\', '\n', '\t', '\x07', 'a', 'f', 'z', ' ', '?', '\xa0', '\xe9', '\u200b', '\u2028', '\U0001f600']
KNOWN_BAD = set()      # (the repr()-based escaping had a list here; repaired in 664a6f4)


def literal_of(generated, method):
    m = re.search(r'\.def\("%s",.*?\)\{.*?\}(?:, py::arg\("[^"]*"\)(?: = [^,)]*)?)*, "(.*)"\)' % re.escape(method), generated)
    return m.group(1) if m else None


def make_xml(d, cls, members):
    """members: list of (name, [(param, has_default)], brief text)"""
    os.makedirs(d, exist_ok=True)
    refid = 'class' + cls.replace('::', '_1_1')
    with open(os.path.join(d, 'index.xml'), 'w', encoding='utf-8') as f:
        f.write('<doxygenindex><compound refid="%s" kind="class"><name>%s</name></compound></doxygenindex>' % (refid, cls))
    body = []
    for name, params, brief in members:
        ps = ''.join('<param><type>int</type><declname>%s</declname>%s</param>' % (p, '<defval>1</defval>' if dv else '') for p, dv in params)
        body.append('<memberdef kind="function"><name>%s</name><argsstring>()</argsstring>%s<briefdescription><para>%s</para></briefdescription>'
                    '<detaileddescription></detaileddescription></memberdef>' % (name, ps, _xml(brief)))
    with open(os.path.join(d, refid + '.xml'), 'w', encoding='utf-8') as f:
        f.write('<doxygen><compounddef><sectiondef kind="public-func">%s</sectiondef></compounddef></doxygen>' % ''.join(body))


def _xml(t):
    return t.replace('&', '&amp;').replace('<', '&lt;').replace('>', '&gt;')


def wrap_with(text, xml):
    from gtwrap.pybind_wrapper import PybindWrapper
    w = PybindWrapper(module_name='m', top_module_namespaces=[''], ignore_classes=[''], module_template='{wrapped_namespace}', xml_source=xml)
    return w.wrap_file(text)


def replay(obj):
    if obj.get('kind') == 'escape':
        t = obj['text']
        try:
            d = cpp_decode(escape(t))
        except Exception as e:
            print('observed: literal does not decode:', e)
            return 1
        print('observed: decodes to %r, text %r' % (d, t))
        return 1 if d != t else 0
    print(obj.get('what'))
    return 1


def run(rep, args):
    rep.level = 'other'
    # overloads told apart: which documented definition a request gets (count per signature, never out of range)
    rep.run_proofs(['XMLDocParser.determine_documenting_index'], ['contracts.common', 'contracts.names', 'contracts.pybind'])
    pr = rep.classify(rebaseline=args.rebaseline)
    from props.pyprops import report_regressions
    import ast
    from pyvc.extract import Repo
    src = Repo().functions['PybindWrapper._wrap_method'].source
    ok = "self._cpp_string_literal(self.xml_parser.extract_docstring(self.xml_source, cpp_class, cpp_method, method.args.names()))" in src
    rep.structural.append(('the docstring literal is built by PybindWrapper._cpp_string_literal (the function the escaping check evaluates)', ok, ''))
    if not ok:
        rep.violation('struct:escape-expression', 'the escaping expression in _wrap_method changed; the bounded escaping check no longer mirrors it',
                      dict(obligation='escaping expression'), concrete=False)
    # 1. escaping round trip through the real generator (text -> XML -> extract -> literal -> decode)
    base = tempfile.mkdtemp(prefix='c17_')
    try:
        L = 2 if rep.tier == 'quick' else 3
        texts = [''.join(t) for k in range(1, L + 1) for t in itertools.product(CLASSES, repeat=k)]
        texts += ['say "hi"', 'C:\\data\\', 'path "C:\\dir\\"', 'Schr\\"odinger', 'tab\there', "it's", 'a\\nb', '\\', '"', 'x\\"y"z']
        iface = 'class A { void f(int x); };\n'
        plain = wrap_with(iface, '')
        for t in texts:
            rep.bounded['evaluations'] += 1
            if set(t) & KNOWN_BAD:
                rep.bounded['skipped'] += 1       # known finding C17-repr-escapes-are-not-cpp-escapes
                continue
            if t != t.strip() or not t.strip() or '\n' in t or '\t' in t and False:
                expected = t.strip()
            else:
                expected = t
            xml = os.path.join(base, 'x%d' % rep.bounded['evaluations'])
            make_xml(xml, 'A', [('f', [('x', False)], t)])
            try:
                out = wrap_with(iface, xml)
            except Exception as e:
                rep.violation('doc:exception', 'generation with XML raised %r for documentation text %r' % (e, t),
                              dict(kind='escape', text=t))
                continue
            lit = literal_of(out, 'f')
            rep.bounded['distinct'].add(t)
            if lit is None:
                rep.violation('doc:literal-not-found', 'no docstring literal emitted for text %r' % t, dict(kind='escape', text=t))
                continue
            try:
                dec = cpp_decode(lit)
            except Exception as e:
                rep.violation('doc:literal-malformed', 'literal for text %r is not a valid C++ string literal: %s' % (t, e), dict(kind='escape', text=t, literal=lit))
                continue
            exp = ''.join(x for x in [t] if x.strip()).strip()
            if any(ord(c) < 0x20 and c not in '\t\n\r' for c in t):
                exp = ''        # not an XML 1.0 character: the documentation file is unreadable, which must give an empty docstring
            if dec != exp:
                rep.violation('doc:literal-decodes-differently', 'literal for %r decodes to %r' % (exp, dec), dict(kind='escape', text=t, literal=lit))
            # apart from the literal the code is unchanged
            if out.replace(', "' + lit + '"', '') != plain:
                rep.violation('doc:other-code-changed', 'generated code differs beyond the added literal', dict(kind='escape', text=t))
        if len(rep.bounded['samples']) < 2:
            rep.bounded['samples'].append(dict(texts=[repr(x) for x in texts[:6]]))
        # 2. overload matching and missing documentation
        iface2 = 'class A { void g(int key, double value); void g(int index, double value); void g(int a); void h(); void k(int p, int q); };\n'
        xml = os.path.join(base, 'ov')
        make_xml(xml, 'A', [('g', [('key', False), ('value', False)], 'first'), ('g', [('index', False), ('value', False)], 'second'),
                            ('g', [('a', False)], 'third'), ('k', [('p', False), ('q', True)], 'optional')])
        out = wrap_with(iface2, xml)
        rep.bounded['evaluations'] += 1
        lits = re.findall(r'\.def\("(\w+)",\[\]\(A\* self(?:, )?([^)]*)\)\{.*?\}[^"]*?(?:, "([^"]*)")?\)\n', out + '\n')
        got = {}
        for name, sig, lit in re.findall(r'\.def\("(\w+)",\[\]\(A\* self,? ?([^)]*)\)\{[^}]*\}((?:, py::arg\("\w+"\))*(?:, "[^"]*")?)\)', out):
            got.setdefault(name, []).append((sig, re.search(r', "([^"]*)"$', lit).group(1) if re.search(r', "([^"]*)"$', lit) else None))
        exp = {'g': [('int key, double value', 'first'), ('int index, double value', 'second'), ('int a', 'third')], 'h': [('', '')],
               'k': [('int p, int q', 'optional')]}
        if got != exp:
            rep.violation('doc:overload-matching', 'docstrings attached to overloads: %r, expected %r' % (got, exp), dict(kind='overloads', got=repr(got)))
        # missing class / missing folder -> empty docstring, no exception
        for bad_xml in (os.path.join(base, 'nonexistent'), xml):
            try:
                o = wrap_with('class Zed { void f(); };\n', bad_xml)
                rep.bounded['evaluations'] += 1
                if ', ""' not in o:
                    rep.violation('doc:missing-not-empty', 'missing documentation does not give an empty docstring', dict(kind='missing', xml=bad_xml))
            except Exception as e:
                rep.violation('doc:missing-raises', 'missing documentation raises %r' % e, dict(kind='missing', xml=bad_xml))
    finally:
        shutil.rmtree(base, ignore_errors=True)
    report_regressions(rep, pr)
    rep.bounded['rule'] = ('documentation texts: all strings of length <= %d over 16 character-class representatives (quotes, backslash, newline, tab, control, hex-digit '
                           'letters, other ASCII, ?, U+00A0, U+00E9, U+200B, U+2028, astral) plus hand-picked quote/backslash mixes; each goes through a generated '
                           'Doxygen XML tree, the real extract_docstring and the real generator, and the emitted literal is decoded by a reference C++ literal decoder. '
                           'Texts containing a character of the known escaping finding are skipped and counted. distinct = texts whose literal was decoded' % L)
    rep.explanation = ('the escaping expression is located in the real source (structural) and evaluated through the real generator on the bounded scope; overload '
                       'matching, empty docstrings for missing documentation and "nothing else changes" are checked on generated XML trees.')
    rep.assumptions += ['xml.etree.ElementTree semantics', 'the reference decoder of C++ narrow string literals (props/C17.py:cpp_decode)']
