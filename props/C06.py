"""C06 -- MATLAB generator: bounded read-back of real output (+ proofs where the engine reaches)."""
from props import matlab_scope as ms, pyprops

PID = 'C06'
from contracts.c06 import C06_KEYS as KEYS  # noqa: E402


def replay(obj):
    return ms.replay(obj)


def run(rep, args):
    rep.level = 'other'
    if KEYS:
        rep.run_proofs(KEYS, ['contracts.common', 'contracts.names', 'contracts.pybind', 'contracts.matlab_text', 'contracts.c06'])
    # the text view of the MATLAB call sites (guards and ids of one overload sit in one branch): separate module set, because
    # contracts/c06_sites.py replaces the id view that contracts/c05.py gives of the same functions
    from contracts.c06_sites import C06_SITE_KEYS
    rep.run_proofs(C06_SITE_KEYS, ['contracts.common', 'contracts.names', 'contracts.pybind', 'contracts.matlab_text', 'contracts.c05',
                                   'contracts.c06_sites'])
    pr = rep.classify(rebaseline=args.rebaseline)
    n = 150 if rep.tier == 'quick' else 2500
    if pr['demoted'] or pr['regressions']:
        n *= 4
    ms.run(rep, n, PID)
    pyprops.report_regressions(rep, pr)
    rep.bounded['rule'] = "seeded slice of the structured scope (gen/scope.py: class shapes with defaults on constructors, methods, statics, functions; passing modes value/&/*/@; Vector/Matrix; pair/void/object/enum returns) plus sanitised random modules, wrapped by the real MatlabWrapper; for every non-templated callable with n parameters and k trailing defaults: exactly the arities n..n-k exist, each routine's checkArguments count, unwrap statements (name, position in[], mode) and call arguments (explicit names followed by the omitted defaults' text) match, return outputs match the declared shape, and every .m gateway call sits under a guard for its arity. distinct = distinct generated texts"
    rep.explanation = 'arity expansion, guards and marshalling are decided on the bounded scope by reading the generated .m / .cpp back and comparing with the declared signatures.'
    rep.assumptions += ['the abstract module is obtained through the real parser (C01 checks it separately)',
                        'MATLAB / MEX run-time semantics of the emitted text is not verified']
