"""C10 -- MATLAB generator: bounded read-back of real output (+ proofs where the engine reaches)."""
from props import matlab_scope as ms, pyprops

PID = 'C10'
KEYS = ['MatlabWrapper.wrap_enum', 'FormatMixin._format_class_name', 'FormatMixin._clean_class_name', 'collect_namespaces',
        'Namespace.full_namespaces', 'MatlabWrapper.get_class_name', 'CheckMixin._has_serialization',
        'MatlabWrapper.generate_preamble', 'MatlabWrapper.wrap_properties_block', 'MatlabWrapper._qualified_name']


def replay(obj):
    return ms.replay(obj)


def run(rep, args):
    rep.level = 'other'
    if KEYS:
        rep.run_proofs(KEYS, ['contracts.common', 'contracts.names', 'contracts.pybind', 'contracts.matlab_text', 'contracts.c06', 'contracts.c10_base'])
    pr = rep.classify(rebaseline=args.rebaseline)
    n = 150 if rep.tier == 'quick' else 2500
    if pr['demoted'] or pr['regressions']:
        n *= 4
    ms.run(rep, n, PID)
    pyprops.report_regressions(rep, pr)
    rep.bounded['rule'] = 'same scope; the generated file tree is compared with the declared entities: one classdef per non-ignored class instantiation in its +package path (base or handle, pointer property, constructor, delete, one method per distinct name, statics, get/set per property), one function file per free function name, one enumeration classdef per enum with 0..n-1 numbering (class-scoped enums under +Class), exactly one MEX source with one collector per class, clean-up entry and RTTI registration iff virtual'
    rep.explanation = 'the enumeration classdef text (0..n-1 numbering in declared order) and the preamble of the MEX source (one collector and one clean-up block per non-ignored class, an RTTI entry exactly for the virtual ones) and the properties block of a classdef (pointer property, then one line per declared property in declared order) are proved; the rest of the toolbox contents are decided on the bounded scope by comparing the generated file tree with the entities declared by the reference semantics.'
    rep.assumptions += ['the abstract module is obtained through the real parser (C01 checks it separately)',
                        'MATLAB / MEX run-time semantics of the emitted text is not verified']
