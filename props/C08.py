"""C08 -- pybind side: proofs of the leaf emitters + run-time contracts + reference-binding oracle."""
from props import pyprops, pybind_scope as ps

PID = 'C08'


def replay(obj):
    if obj.get('kind') == 'pybind-e2e':
        return ps.replay_pybind(obj)
    print('replay:', obj.get('what'))
    print(obj.get('solver_output', '') or obj)
    return 1


def run(rep, args):
    rep.level = 'other'
    pr = pyprops.prove(rep, PID, args)
    from props import wf_scope
    if not wf_scope.check_wf(rep, True, 40 if rep.tier == 'quick' else 400):
        pr['demoted'].append(dict(key='(all proofs)', reason='the typed-field schema / class invariants assumed by the proofs do not hold on the bounded scope',
                                  was_proved=True, changed=True))
    n = 120 if rep.tier == 'quick' else 1500
    if pr['demoted'] or pr['regressions']:
        n *= 4
    ps.run_oracle(rep, n, pyprops.CATS[PID])
    if PID in ('C03', 'C04'):
        pyprops.monitors(rep, 60 if rep.tier == 'quick' else 600)
    pyprops.report_regressions(rep, pr)
    rep.bounded['rule'] = ('seeded random modules from the reference grammar (gen/iface.py), each once as generated and once sanitised '
                           '(outside the characterising predicates of the known findings), wrapped by the real PybindWrapper with top '
                           'namespace [""] and, for a quarter, ["", ns]; the emitted text is read back into binding records and compared '
                           'with the bindings declared by the reference semantics (gen/reference.py). distinct = distinct (text, top) pairs '
                           'that were generated and compared; inputs matching a known-finding predicate are skipped and counted')
    rep.explanation = EXPL
    rep.assumptions += ASSUME


EXPL = 'instantiated names and callee spellings are proved; count, order (first parameter slowest), naming and typedef instantiations are decided by the bounded oracle against the reference product semantics.'
ASSUME = ['the reference semantics gen/reference.py (written from DOCS.md and the property statements) is the oracle of the bounded part',
          'C++ / pybind11 run-time semantics of the emitted text is not verified (no compiler is run)']
