"""Witnesses of the known findings: each returns True while the real code still shows the defect.

A check prints `KNOWN-FINDING: property=<id> ...` for every open finding of its property whose witness
still reproduces; a finding that no longer reproduces is reported in the evidence only.  Nothing is added
to known_findings.json at run time.
"""
import os
import shutil
import tempfile


def _py(text, **kw):
    from props.pybind_scope import generate_pybind
    return generate_pybind(text, **kw)


def _ml(text, **kw):
    from props.matlab_e2e import generate
    return generate(text, **kw)


def nested_param():
    out = _py("template<T = {double}>\nclass A { void f(std::vector<std::vector<T>> v); };\n")
    return 'std::vector<std::vector<T>>' in out


def scoped_substring():
    out = _py("template<T = {gtsam::Pose3}>\nclass A { void f(T::Type v); };\n")
    return 'Pose3ype' in out


def nested_this():
    out = _py("class A { void f(std::vector<This> v); };\n")
    return 'std::vector<This>' in out


def scoped_templated_inst():
    out = _py("template<T = {ns1::map<int>}>\nclass A { void f(T::Value v); };\n")
    return 'ns1::map::Value<int>' in out


def keywords_async():
    out = _py("class A { void await(); void async(); };\n")
    return '.def("await"' in out or '.def("async"' in out


def namespace_reopened():
    out = _py("namespace ns { class A {}; }\nnamespace ns { class B {}; }\n")
    return out.count('pybind11::module m_ns = ') == 2


def typedef_before_namespace():
    out = _py("namespace app { typedef geo::Box<double> DBox; }\nnamespace geo { template<T> class Box { Box(); }; }\n")
    i, j = out.find('(m_geo, "DBox")'), out.find('pybind11::module m_geo')
    return i >= 0 and (j < 0 or i < j)


def function_callee_mangled():
    out = _py("template<T = {std::vector<double>}>\nT twice(const T& t);\n")
    return 'twice<std::vectordouble>' in out.replace(' ', '') or 'vectordouble' in out


def instantiate_name_caps():
    import gtwrap.interface_parser as ip
    from gtwrap.template_instantiator.helpers import instantiate_name
    tn = ip.Typename(['test'])
    return instantiate_name('F', [tn]) != 'FTest'


def namespaced_variable_value():
    out = _py("namespace ns { const double kG = -9.81; }\n")
    return 'ns::-9.81' in out


def class_enum_variable_clash():
    out = _py("namespace a { class K { enum E { X }; }; }\nnamespace b { class K { enum E { X }; }; }\n")
    return out.count('> k(') == 2


def ignored_class_enums():
    out = _py("namespace ns { class A { enum E { X }; }; class B {}; }\n", ignore=('ns::A',))
    return 'py::enum_<ns::A::E>' in out


def matlab_global_ignore():
    try:
        _ml("class A { A(); };\nclass B { B(); };\n", ignore=('::A',))
    except TypeError:
        return True
    files, w = _ml("class A { A(); };\nclass B { B(); };\n", ignore=('A',))
    return 'A.m' in files


def matlab_concat():
    from props.matlab_e2e import make_wrapper
    d = tempfile.mkdtemp(prefix='kf_')
    try:
        a, b = os.path.join(d, 'a.i'), os.path.join(d, 'b.i')
        open(a, 'w').write('class A { A(); };\n// c')
        open(b, 'w').write('class B { B(); };\nclass C { C(); };\n')
        make_wrapper('m').wrap([a, b], os.path.join(d, 'out'))
        return not os.path.exists(os.path.join(d, 'out', 'B.m'))
    except Exception:
        return True
    finally:
        shutil.rmtree(d, ignore_errors=True)


def scripts_without_ignore():
    import subprocess
    import sys
    from pyvc.extract import REPO
    repo = os.environ.get('VERIF_REPO', REPO)
    d = tempfile.mkdtemp(prefix='kf_')
    try:
        src = os.path.join(d, 'a.i')
        open(src, 'w').write('class A { A(); };\n')
        tpl = os.path.join(d, 't.tpl')
        open(tpl, 'w').write('{wrapped_namespace}')
        p = subprocess.run([sys.executable, os.path.join(repo, 'scripts', 'pybind_wrap.py'), '--src', src, '--module_name', 'm',
                            '--out', os.path.join(d, 'o.cpp'), '--template', tpl], capture_output=True, text=True,
                           env=dict(os.environ, PYTHONPATH=repo))
        return p.returncode != 0 and 'NoneType' in p.stderr
    finally:
        shutil.rmtree(d, ignore_errors=True)


def xml_index_error():
    from gtwrap.xml_parser.xml_parser import XMLDocParser
    import xml.etree.ElementTree as ET
    p = XMLDocParser()
    defs = [ET.fromstring('<memberdef><name>f</name><param><declname>x</declname></param><argsstring>(x)</argsstring></memberdef>')
            for _ in range(2)]
    try:
        for _ in range(3):
            i = p.determine_documenting_index('C', 'f', ['x'], defs)
            defs[i]
    except IndexError:
        return True
    return False


def repr_escape():
    text = 'a\xa0b'
    lit = repr(text)[1:-1].replace('"', r'\"')
    from props.C17 import cpp_decode
    try:
        return cpp_decode(lit) != text
    except Exception:
        return True


def static_varargout():
    files, w = _ml("class A { A(); static void sv(int q); };\n")
    return 'varargout{1} = mod_wrapper' in files['A.m'].split('function varargout = sv')[1].split('end')[0]


def templated_pair_crash():
    try:
        _ml("class A { A(); template<T = {double}> pair<T, int> both(T t) const; };\n")
    except AttributeError:
        return True
    return False


def vector_param_crash():
    try:
        _ml("template<T = {bool}>\nclass A { A(const std::vector<T>& v); };\n")
    except TypeError:
        return True
    return False


def property_get_set_name():
    files, w = _ml("class A { A(); double a_set_b; };\n")
    cpp = files['mod_wrapper.cpp']
    import re
    m = re.search(r'void A_get_a_set_b_\d+\(.*?\n\}\n', cpp, re.S)
    return bool(m) and 'obj->a_set_b = ' in m.group(0)


def two_token_terminals():
    import gtwrap.interface_parser as ip
    try:
        ip.Module.parseString('void f(unsigned  char c);')
    except Exception:
        return True
    return False


def comment_glued_to_default():
    import gtwrap.interface_parser as ip
    m = ip.Module.parseString('void f(int a = 5/*c*/);')
    return m.content[0].args.list()[0].default != '5'


def tab_in_default():
    import gtwrap.interface_parser as ip
    m = ip.Module.parseString('void f(string a = "x\ty");')
    return m.content[0].args.list()[0].default != '"x\ty"'


def open_without_encoding():
    import ast
    from pyvc.extract import Repo
    fi = Repo().functions['MatlabWrapper.wrap']
    return any(isinstance(n, ast.Call) and getattr(n.func, 'id', None) == 'open' and not any(k.arg == 'encoding' for k in n.keywords)
               for n in ast.walk(fi.node))


def qualifiers_in_instantiation_list():
    import gtwrap.interface_parser as ip
    try:
        m = ip.Module.parseString('template<T = {const std::vector<double>&}>\nclass A {};')
    except Exception:
        return False
    return True


def submodule_ignores_out():
    import ast
    from pyvc.extract import Repo
    fi = Repo().functions['PybindWrapper.wrap_submodule']
    return 'filename.replace(".i", ".cpp")' in fi.source


def namespace_called_this():
    out = _py("namespace This { class Foo { void f(std::vector<This> a, This b); }; }\n")
    return 'This::Foo::Foo' in out


WITNESS = {
    'C03-typedef-outside-its-template-namespace': typedef_before_namespace,
    'C09-class-enum-variable-clash': class_enum_variable_clash,
    'C12-two-token-terminals': two_token_terminals,
    'C12-comment-glued-to-default-value': comment_glued_to_default,
    'C01-qualifiers-in-instantiation-list-dropped': qualifiers_in_instantiation_list,
    'C02-namespace-called-This': namespace_called_this,
}


def report_known(rep):
    """print KNOWN-FINDING lines for the open findings of rep.pid that still reproduce"""
    for k in rep.known():
        fn = WITNESS.get(k['id'])
        still = None
        if fn is not None:
            try:
                still = bool(fn())
            except Exception as e:
                still = None
                rep.notes.append('witness of %s could not be evaluated: %r' % (k['id'], e))
        if still is None or still:
            if k['id'] not in [x['id'] for x in rep.known_seen]:
                rep.known_seen.append(k)
        else:
            rep.notes.append('known finding %s no longer reproduces' % k['id'])
