"""Read generated pybind11 text back into binding records (same shape as gen.reference.bindings)."""
import re


class Unreadable(Exception):
    pass


def split_top(text, seps=';'):
    """split at separators that are outside (), {}, [], <> is NOT tracked, and string literals"""
    out, cur, depth, i, n = [], [], 0, 0, len(text)
    quote = None
    while i < n:
        ch = text[i]
        if quote:
            cur.append(ch)
            if ch == '\\' and i + 1 < n:
                cur.append(text[i + 1])
                i += 1
            elif ch == quote:
                quote = None
        elif ch in '"\'':
            quote = ch
            cur.append(ch)
        elif ch in '({[':
            depth += 1
            cur.append(ch)
        elif ch in ')}]':
            depth -= 1
            cur.append(ch)
        elif ch in seps and depth == 0:
            out.append(''.join(cur))
            cur = []
        else:
            cur.append(ch)
        i += 1
    if ''.join(cur).strip():
        out.append(''.join(cur))
    if depth != 0 or quote:
        raise Unreadable('unbalanced brackets or quotes')
    return out


def split_commas(text):
    """top-level commas, also tracking <> (template arguments)"""
    out, cur, depth, quote = [], [], 0, None
    i, n = 0, len(text)
    while i < n:
        ch = text[i]
        if quote:
            cur.append(ch)
            if ch == '\\' and i + 1 < n:
                cur.append(text[i + 1]); i += 1
            elif ch == quote:
                quote = None
        elif ch in '"\'':
            quote = ch; cur.append(ch)
        elif ch in '({[<':
            depth += 1; cur.append(ch)
        elif ch in ')}]>':
            depth -= 1; cur.append(ch)
        elif ch == ',' and depth == 0:
            out.append(''.join(cur)); cur = []
        else:
            cur.append(ch)
        i += 1
    if ''.join(cur).strip():
        out.append(''.join(cur))
    return [x.strip() for x in out]


def balanced(text, start):
    """text[start] is '(' or '{': index of the matching closer"""
    op = text[start]
    cl = {'(': ')', '{': '}'}[op]
    depth, i, quote = 0, start, None
    while i < len(text):
        ch = text[i]
        if quote:
            if ch == '\\':
                i += 1
            elif ch == quote:
                quote = None
        elif ch in '"\'':
            quote = ch
        elif ch in '({[':
            depth += 1
        elif ch in ')}]':
            depth -= 1
            if depth == 0:
                return i
        i += 1
    raise Unreadable('unbalanced')


def parse_pyargs(rest):
    """', py::arg("a") = 1, py::arg("b")' -> (('a','1'),('b',None))"""
    rest = rest.strip()
    if not rest:
        return ()
    if not rest.startswith(','):
        raise Unreadable('keyword argument list: %r' % rest[:60])
    items = re.split(r',\s*(?=py::arg\(")', rest)
    out = []
    for it in items:
        it = it.strip()
        if not it:
            continue
        m = re.match(r'py::arg\("([^"]*)"\)(?:\s*=\s*(.*))?$', it, re.S)
        if not m:
            # a docstring literal may follow the arguments
            if it.startswith('"'):
                out.append(('__doc__', it))
                continue
            raise Unreadable('keyword argument %r' % it[:60])
        out.append((m.group(1), m.group(2)))
    return tuple(out)


def parse_sig(sig):
    """'A* self, const T& x' -> [('A*','self'),('const T&','x')]"""
    out = []
    for p in split_commas(sig):
        if not p:
            continue
        m = re.match(r'(.*\S)\s+(\w+)$', p, re.S)
        if not m:
            raise Unreadable('lambda parameter %r' % p)
        out.append((m.group(1).strip(), m.group(2)))
    return out


def parse_def(item, cpp):
    """one '.def...(...)' call of a class statement -> record"""
    m = re.match(r'\.(def_static|def_readwrite|def_readonly|def)\(', item)
    if not m:
        raise Unreadable('class member %r' % item[:60])
    kind = m.group(1)
    inner = item[m.end():balanced(item, m.end() - 1)]
    if kind in ('def_readwrite', 'def_readonly'):
        mm = re.match(r'"(\w+)", &(.*)::(\w+)$', inner.strip())
        if not mm or mm.group(1) != mm.group(3) or mm.group(2) != cpp:
            raise Unreadable('property %r' % inner)
        return ('prop', cpp, mm.group(1), kind == 'def_readonly')
    if inner.startswith('py::init<'):
        j = inner.index('>()')
        # find the end of the template argument list robustly
        types = inner[len('py::init<'):inner.rindex('>()', 0, len(inner))] if inner.count('>()') == 1 else inner[len('py::init<'):j]
        rest = inner[inner.index('>()', len('py::init<') + len(types)) + 3:]
        pa = parse_pyargs(rest)
        return ('ctor', cpp, tuple(split_commas(types)), pa)
    if inner.startswith('py::pickle('):
        return ('pickle', cpp)
    if inner.startswith('py::self') or re.match(r'[-+]py::self', inner):
        mm = re.match(r'py::self (\S+) py::self$', inner)
        if mm:
            return ('op', cpp, mm.group(1), False)
        mm = re.match(r'([-+])py::self$', inner)
        if mm:
            return ('op', cpp, mm.group(1), True)
        raise Unreadable('operator %r' % inner)
    mm = re.match(r'"(\w+)",\s*', inner)
    if not mm:
        raise Unreadable('binding %r' % inner[:60])
    pyname = mm.group(1)
    rest = inner[mm.end():]
    if rest.startswith('&'):
        t = rest[1:]
        if t == cpp + '::operator[]':
            return ('op', cpp, '[]', False)
        if t == cpp + '::operator()':
            return ('op', cpp, '()', False)
        raise Unreadable('member pointer %r' % rest)
    if not rest.startswith('[]('):
        raise Unreadable('lambda expected: %r' % rest[:40])
    e = balanced(rest, 2)
    sig = parse_sig(rest[3:e])
    b0 = rest.index('{', e)
    b1 = balanced(rest, b0)
    body = rest[b0 + 1:b1].strip()
    pa = parse_pyargs(rest[b1 + 1:])
    if pyname in ('serialize', 'deserialize') and 'gtsam::' in body:
        return ('serialization-part', cpp, pyname)
    if pyname == '__repr__':
        return ('repr', cpp, tuple(n for _, n in sig[1:]))
    if pyname in ('__len__', '__contains__', '__iter__'):
        return ('dunder', cpp, pyname[2:-2])
    is_static = kind == 'def_static'
    if not is_static:
        if not sig or sig[0] != (cpp + '*', 'self'):
            raise Unreadable('first lambda parameter of a method must be `%s* self`: %r' % (cpp, sig[:1]))
        sig = sig[1:]
    body2 = body.replace('py::scoped_ostream_redirect output; ', '')
    mm = re.match(r'(return)?\s*(self->|%s::)(.*)\((.*)\);$' % re.escape(cpp), body2, re.S)
    if not mm:
        raise Unreadable('method body %r' % body[:80])
    if (mm.group(2) == 'self->') == is_static:
        raise Unreadable('static/instance call form does not match def/def_static: %r' % body[:60])
    names = tuple(x for x in split_commas(mm.group(4)))
    if names != tuple(n for _, n in sig):
        raise Unreadable('forwarded names %r differ from lambda parameters %r' % (names, sig))
    kw = tuple(x for x in pa if x[0] != '__doc__')
    if tuple(k for k, _ in kw) != tuple(n for _, n in sig):
        raise Unreadable('py::arg list %r does not match lambda parameters %r' % (kw, sig))
    return ('static' if is_static else 'method', cpp, pyname, mm.group(3), tuple(t for t, _ in sig), kw, mm.group(1) is None)


def read(text):
    """wrapped namespace text -> list of records"""
    out = []
    modvars = {'m_': ()}
    classvars = {}
    for st in split_top(text, ';'):
        s = st.strip()
        if not s:
            continue
        m = re.match(r'pybind11::module (\w+) = (\w+)\.def_submodule\("(\w+)", "(\w+) submodule"\)$', s)
        if m:
            if m.group(1) in modvars:
                raise Unreadable('submodule variable %s declared twice' % m.group(1))
            if m.group(2) not in modvars:
                raise Unreadable('submodule %s created in undeclared %s' % (m.group(1), m.group(2)))
            modvars[m.group(1)] = modvars[m.group(2)] + (m.group(3),)
            out.append(('submodule', modvars[m.group(2)], m.group(3)))
            continue
        m = re.match(r'py::class_<(.*), std::shared_ptr<(.*?)>>\s*(\w+)?\((\w+), "(\w+)"\)(.*)$', s, re.S)
        if m:
            head, cpp, var, modvar, pyname, tail = m.groups()
            base = None
            if head != cpp:
                if not head.startswith(cpp + ', '):
                    raise Unreadable('class_ template arguments %r' % head)
                base = head[len(cpp) + 2:]
            if modvar not in modvars:
                raise Unreadable('class %s registered in undeclared module variable %s' % (pyname, modvar))
            out.append(('class', modvars[modvar], pyname, cpp, base))
            if var:
                if var in classvars or var in modvars:
                    raise Unreadable('class variable %s declared twice' % var)
                classvars[var] = (cpp, pyname)
                if tail.strip():
                    raise Unreadable('unexpected text after class variable declaration')
                continue
            body = tail
            _members(body, cpp, out)
            continue
        m = re.match(r'(\w+)\s*(\..*)$', s, re.S)
        if m and m.group(1) in classvars and m.group(2).lstrip().startswith('.def'):
            _members(m.group(2), classvars[m.group(1)][0], out)
            continue
        if s in classvars:
            continue
        m = re.match(r'py::enum_<(.*?)>\((\w+), "(\w+)", py::arithmetic\(\)\)(.*)$', s, re.S)
        if m:
            cpp, where, name, vals = m.groups()
            names = []
            for v in re.findall(r'\.value\("(\w+)", (.+?)\)\s*(?=\.value|$)', vals, re.S):
                if v[1] != cpp + '::' + v[0]:
                    raise Unreadable('enumerator %s bound to %s' % (v[0], v[1]))
                names.append(v[0])
            if where in classvars:
                scope = ('class', classvars[where][1])
            elif where in modvars:
                scope = ('module', modvars[where])
            else:
                raise Unreadable('enum %s registered in undeclared %s' % (name, where))
            out.append(('enum', scope, name, cpp, tuple(names)))
            continue
        m = re.match(r'(\w+)\.attr\("(\w+)"\) = (.*)$', s, re.S)
        if m:
            if m.group(1) not in modvars:
                raise Unreadable('variable in undeclared module %s' % m.group(1))
            out.append(('var', modvars[m.group(1)], m.group(2), m.group(3), None))
            continue
        m = re.match(r'(\w+)(\.def.*)$', s, re.S)
        if m and m.group(1) in modvars:
            item = m.group(2)
            mm = re.match(r'\.(def_static|def)\("(\w+)",\[\]\(', item)
            if not mm:
                raise Unreadable('function binding %r' % item[:60])
            start = mm.end() - 1
            e = balanced(item, start)
            sig = parse_sig(item[start + 1:e])
            b0 = item.index('{', e)
            b1 = balanced(item, b0)
            body = item[b0 + 1:b1].strip()
            endcall = balanced(item, item.index('('))
            pa = parse_pyargs(item[b1 + 1:endcall])
            bm = re.match(r'(return)?\s*(.*)\((.*)\);$', body, re.S)
            if not bm:
                raise Unreadable('function body %r' % body[:60])
            names = tuple(split_commas(bm.group(3)))
            if names != tuple(n for _, n in sig) or tuple(k for k, _ in pa) != names:
                raise Unreadable('function %s: parameters, forwarded names and py::arg list disagree' % mm.group(2))
            out.append(('func', modvars[m.group(1)], mm.group(2), bm.group(2), tuple(t for t, _ in sig), pa, bm.group(1) is None))
            continue
        raise Unreadable('statement %r' % s[:80])
    return out


def _members(body, cpp, out):
    body = body.strip()
    i = 0
    while i < len(body):
        if body[i].isspace():
            i += 1
            continue
        m = re.match(r'\.(def_static|def_readwrite|def_readonly|def)\(', body[i:])
        if not m:
            raise Unreadable('class member at %r' % body[i:i + 50])
        e = balanced(body, i + m.end() - 1)
        rec = parse_def(body[i:e + 1], cpp)
        out.append(rec)
        i = e + 1


def normalise(recs):
    """records as a comparable multiset: serialization pieces folded, leading :: dropped, variable values kept"""
    out = []
    for r in recs:
        if r[0] in ('serialization-part', 'pickle'):
            if ('serialization', r[1]) not in out:
                out.append(('serialization', r[1]))
            continue
        if r[0] == 'func' and r[3].startswith('::'):
            r = r[:3] + (r[3][2:],) + r[4:]
        if r[0] == 'var':
            v = r[3]
            r = ('var', r[1], r[2], v[2:] if v.startswith('::') else v)
        out.append(r)
    return out


def compare(got, exp):
    """-> list of (key, message) explaining every difference between two binding multisets"""
    g, e = list(normalise(got)), list(normalise(exp))
    subs_g = [r for r in g if r[0] == 'submodule']
    subs_e = [r for r in e if r[0] == 'submodule']
    bad = []
    for r in list(g):
        if r in e:
            g.remove(r)
            e.remove(r)
    for r in g:
        bad.append(('extra', r))
    for r in e:
        bad.append(('missing', r))
    return bad
