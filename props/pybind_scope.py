"""Bounded pybind oracle: reference bindings vs bindings read back from real output, with the
characterising predicates of the known findings (inputs matching one are excluded and counted)."""
import collections

from gen import reference as R
from gen.iface import unparse


def walk(module, path=()):
    for d in module:
        yield d, path
        if d[0] == 'ns':
            yield from walk(d[2], path + (d[1],))


def types_of(d):
    k = d[0]
    if k == 'class':
        for m in d[5]:
            if m[0] == 'ctor':
                for a in m[3]:
                    yield a[1], m[1]
            elif m[0] in ('method', 'static'):
                for a in m[4]:
                    yield a[1], m[1]
                r = m[2]
                for t in ((r[1], r[2]) if r[0] == 'P' else (r,)):
                    yield t, m[1]
            elif m[0] == 'prop':
                yield m[1], None
            elif m[0] == 'op':
                for a in m[3]:
                    yield a[1], None
        if d[4] is not None:
            yield d[4], None
    elif k == 'func':
        for a in d[4]:
            yield a[1], d[1]
        r = d[2]
        for t in ((r[1], r[2]) if r[0] == 'P' else (r,)):
            yield t, d[1]


def mentions(t, names, depth=0):
    """(max depth at which a parameter occurs as a whole unqualified name, hazardous scoped use?)"""
    _, _c, ns, name, targs, _m = t
    best = -1
    scoped = False
    if name in names and not ns:
        best = depth + 1 if (name == 'This' and depth >= 1) else depth     # a bare `This` is only replaced at the top level
    if name in names and ns:
        scoped = True           # a namespace-qualified name that merely equals a parameter spelling
    for p in names:
        if p != 'This' and p in ns:
            # scoped use P::rest: the code rewrites by str.replace on the whole spelling
            spelled = '::'.join(list(ns) + [name])
            if spelled.count(p) > 1 or depth >= 1 or ns[0] != p:
                scoped = True
            scoped = scoped or 'templ' == 0
            best = max(best, depth)
    if 'This' in names and 'This' in ns:
        best = max(best, depth + 1 if depth >= 2 else 0)     # This::X is handled at the top level and one template level down
    for a in targs:
        b, s = mentions(a, names, depth + 1)
        best = max(best, b)
        scoped = scoped or s
    return best, scoped


def scoped_params(t, names):
    """parameters used as P::X anywhere in t"""
    _, _c, ns, name, targs, _m = t
    out = {p for p in names if p in ns and p != 'This'}
    for a in targs:
        out |= scoped_params(a, names)
    return out


def substring_hit(t, names):
    return False


def known_predicates(module):
    """set of known-finding ids whose characterising predicate the module satisfies"""
    hits = set()
    low = collections.Counter()
    for d, path in walk(module):
        if d[0] == 'class' and any(m[0] == 'enum' for m in d[5]):
            for combo, env in (R.envs_of(d[1]) or [((), {})]):
                low[(d[3] + R.inst_suffix(combo)).lower()] += 1
    if any(v > 1 for v in low.values()):
        hits.add('C09-class-enum-variable-clash')
    for d, path in walk(module):
        k = d[0]
        if k == 'ns':
            sib = [x[1] for x in (module if not path else _children(module, path)) if x[0] == 'ns']
            if len(sib) != len(set(sib)):
                pass        # reopened namespaces: repaired (58110e2), part of the scope now
        names = []
        if k == 'class':
            names = [m[3] for m in d[5] if m[0] in ('method', 'static')]
            if any(m[0] == 'enum' for m in d[5]):
                hits.add('enum-in-class')
        if k == 'func':
            names = [d[3]]
        tpls = []
        if k in ('class', 'func') and d[1] is not None:
            tpls.append(d[1])
        if k == 'class':
            for m in d[5]:
                if m[0] in ('ctor', 'method', 'static') and m[1] is not None:
                    tpls.append(m[1])
        cparams = {p for p, _ in d[1][1]} if k in ('class', 'func') and d[1] is not None else set()
        for t, mt in types_of(d):
            params = set(cparams) | ({p for p, _ in mt[1]} if mt else set())
            if k == 'class':
                params_this = params | {'This'}
            else:
                params_this = params
            if not params_this:
                continue
            depth, scoped = mentions(t, params_this)
            # nested parameters, nested This and scoped uses: repaired (38868e9, 0d60e99, a4c9c5d, cd55683), part of the scope now
            if depth >= 1 and (t[1] or t[5]):
                pass
            for p in scoped_params(t, params):
                # scoped use with an instantiation that is itself templated: ns::map::Value<int> (known finding)
                for tp in tpls:
                    for pp_, insts in tp[1]:
                        if pp_ == p and any(i[4] for i in (insts or ())):
                            pass
            # a parameter inside template arguments together with qualifiers / This in nested position
        if k == 'func' and d[1] is not None:
            for p, insts in d[1][1]:
                for i in insts or ():
                    if i[4]:
                        pass    # repaired (c5ae7ec)
        if k == 'typedef':
            target, tns = R.find_template(module, d[1][2], d[1][3])
            if target is None or (target[0] == 'class' and target[1] is None):
                hits.add('invalid-typedef-target')
            elif target[0] == 'class' and len(target[1][1]) != len(d[1][4]):
                hits.add('invalid-typedef-arity')
            elif target[0] == 'func':
                hits.add('typedef-of-function')
            elif not (path[:len(tns)] == tuple(tns)):
                hits.add('C03-typedef-outside-its-template-namespace')
        if k == 'ns' or not path:
            pass
        if k == 'class' and d[1] is not None:
            for p, insts in d[1][1]:
                nm = [R.iname(i) for i in (insts or ())]
                if len(nm) != len(set(nm)):
                    hits.add('C08-instantiation-name-clash')
    return hits


def _children(module, path):
    cur = module
    for comp in path[:-1]:
        cur = sum((list(d[2]) for d in cur if d[0] == 'ns' and d[1] == comp), [])
    return cur


# ---------------------------------------------------------------- the oracle
def generate_pybind(text, top=('',), ignore=('',), boost=False):
    from gtwrap.pybind_wrapper import PybindWrapper
    w = PybindWrapper(module_name='m', top_module_namespaces=list(top), ignore_classes=list(ignore),
                      use_boost_serialization=boost, module_template='{wrapped_namespace}')
    return w.wrap_file(text)


FULL_TEMPLATE = ('{includes}\n{boost_class_export}\n{module_def} {{\n  m_.doc() = "{module_name}";\n{submodules_init}\n'
                 '{wrapped_namespace}\n}}\n')


def _first_template_args(text, opener):
    out = []
    i = text.find(opener)
    while i >= 0:
        j = i + len(opener)
        d = 0
        k = j
        while k < len(text):
            c = text[k]
            if c == '<':
                d += 1
            elif c == '>':
                if d == 0:
                    break
                d -= 1
            elif c == ',' and d == 0:
                break
            k += 1
        out.append(text[j:k].strip())
        i = text.find(opener, k)
    return out


def tu_sequence(rep):
    """every translation unit of a multi-file project (one wrapper object, serialization on, as scripts/pybind_wrap.py drives it)
    exports and typedefs only classes that the same unit binds: nothing of an earlier file leaks into a later unit"""
    import re
    from gtwrap.pybind_wrapper import PybindWrapper
    from gen import scope
    texts = [scope.build(((sh, pi, nm),)) for sh, pi, nm in (('serial', 1, 'A'), ('vserial', 0, 'B'), ('plain', 2, 'A'), ('serial', 0, 'C'))]
    texts.append("namespace ns1 {\ntemplate<T = {double}, U = {int, bool}>\nclass Pair {\n  Pair();\n  void serialize() const;\n};\n}\n")
    seqs = [[0, 1, 2], [4, 2, 3], [1, 0], [3, 4, 1]]
    for seq in seqs:
        w = PybindWrapper(module_name='m', top_module_namespaces=[''], ignore_classes=[''], use_boost_serialization=True,
                          module_template=FULL_TEMPLATE)
        for k, ti in enumerate(seq):
            rep.bounded['evaluations'] += 1
            tu = w.wrap_file(texts[ti], module_name='part%d' % k)
            rep.bounded['distinct'].add(('tu', tuple(seq[:k + 1])))
            bound = set(_first_template_args(tu, 'py::class_<'))
            bound_flat = {re.sub(r'[,:<> ]', '', b) for b in bound} | bound
            for name in re.findall(r'BOOST_CLASS_EXPORT\((.*?)\)\n', tu):
                if name not in bound_flat:
                    rep.violation('py:tu-export-of-foreign-class',
                                  'unit %d of a %d-file project exports %s, which this unit neither includes nor binds' % (k, len(seq), name),
                                  dict(kind='pybind-tu-sequence', texts=[texts[i] for i in seq], index=k, name=name))


def replay_tu(obj):
    import re
    from gtwrap.pybind_wrapper import PybindWrapper
    w = PybindWrapper(module_name='m', top_module_namespaces=[''], ignore_classes=[''], use_boost_serialization=True,
                      module_template=FULL_TEMPLATE)
    tu = ''
    for k, t in enumerate(obj['texts'][:obj['index'] + 1]):
        tu = w.wrap_file(t, module_name='part%d' % k)
    print('unit %d:' % obj['index'])
    print('\n'.join(l for l in tu.split('\n') if 'BOOST_CLASS_EXPORT' in l or 'py::class_<' in l))
    return 1 if ('BOOST_CLASS_EXPORT(%s)' % obj['name']) in tu else 0


def ident(r):
    k = r[0]
    if k == 'class':
        return (k, r[1], r[2])
    if k in ('method', 'static'):
        return (k, r[1], r[2], len(r[4]))
    if k == 'ctor':
        return (k, r[1], len(r[2]))
    if k == 'func':
        return (k, r[1], r[2], len(r[4]))
    if k in ('prop', 'op', 'dunder'):
        return (k, r[1], r[2])
    if k == 'enum':
        return (k, r[1], r[2])
    if k == 'var':
        return (k, r[1], r[2])
    return r[:3]


def diff_categories(got, exp):
    """-> list of (category, message); categories: presence (C03), forwarding (C04), order (C08)"""
    from props.pybind_e2e import normalise
    g, e = normalise(got), normalise(exp)
    out = []
    g2, e2 = list(g), list(e)
    for r in list(g2):
        if r in e2:
            g2.remove(r)
            e2.remove(r)
    gi = collections.defaultdict(list)
    for r in g2:
        gi[ident(r)].append(r)
    for r in e2:
        cands = gi.get(ident(r))
        if cands:
            a = cands.pop(0)
            out.append(('forwarding', 'binding %s: generated %r, declared %r' % (ident(r), a, r)))
        else:
            out.append(('presence', 'missing binding %r' % (r,)))
    for k, rs in gi.items():
        for r in rs:
            out.append(('presence', 'undeclared binding %r' % (r,)))
    seq_g = [(r[2], r[3]) for r in g if r[0] == 'class'] + [(r[2], r[3]) for r in g if r[0] == 'func']
    seq_e = [(r[2], r[3]) for r in e if r[0] == 'class'] + [(r[2], r[3]) for r in e if r[0] == 'func']
    if sorted(seq_g) == sorted(seq_e) and seq_g != seq_e:
        out.append(('order', 'instantiation order: generated %r, declared %r' % (seq_g[:8], seq_e[:8])))
    return out


def expected(module, top=('',), ignore=(), boost=False):
    return [('var', r[1], r[2], (r[3] if r[4] is None else r[4])) if r[0] == 'var' else r
            for r in R.bindings(module, top, ignore, boost)]


def scope_modules(n, seed):
    """n sanitized + n raw random modules and a slice of the structured scope, as (abstract or None, text, excluded-by)"""
    from gen.iface import Gen, sanitize
    out = []
    import gtwrap.interface_parser as ip
    from gen.iface import abs_module
    from gen.scope import PY_SCENARIOS
    from gen import scope as _scope
    for t in list(PY_SCENARIOS) + [_scope.build(sp) for sp in _scope.core_specs()]:
        try:
            m = abs_module(ip.Module.parseString(t))
        except Exception:
            continue
        out.append((m, t, known_predicates(m) - {'enum-in-class', 'C02-scoped-parameter'}))
    for i in range(n):
        m = Gen(seed * 7919 + i).module()
        c = sanitize(m)
        out.append((c, unparse(c), known_predicates(c) - {'enum-in-class'}))
        out.append((m, unparse(m), known_predicates(m) - {'enum-in-class'}))
    return out


def run_oracle(rep, n, categories, configs=None, prefix='py'):
    """compare real pybind output with the reference bindings on the scope; report diffs of the given categories"""
    from props.pybind_e2e import read, Unreadable
    mods = scope_modules(n, rep.seed)
    excluded = collections.Counter()
    for m, text, hits in mods:
        rep.bounded['evaluations'] += 1
        if hits:
            for h in hits:
                excluded[h] += 1
            rep.bounded['skipped'] += 1
            continue
        tops = [('',)]
        nss = [d[1] for d in m if d[0] == 'ns']
        if nss and rep.bounded['evaluations'] % 4 == 0:
            tops.append(('', nss[0]))
        runs = [(top, ('',)) for top in tops]
        if 'ignore' in categories or 'presence' in categories:
            cls = [r for r in expected(m) if r[0] == 'class']
            enum_cls = {r[1][1] for r in expected(m) if r[0] == 'enum' and r[1][0] == 'class'}
            if cls:
                multi = [r for r in cls if ', ' in r[3]]
                pick = (multi or cls)[rep.bounded['evaluations'] % len(multi or cls)]
                runs.append((('',), (pick[3],)))
        for top, ignore in runs:
            try:
                out = generate_pybind(text, top=top, ignore=ignore)
            except Exception as e:
                rep.bounded['skipped'] += 1
                continue
            rep.bounded['distinct'].add(hash((text, top, ignore)))
            if len(rep.bounded['samples']) < 2:
                rep.bounded['samples'].append(dict(input=text[:300], top=list(top)))
            try:
                got = read(out)
            except Unreadable as e:
                if 'readable' in categories:
                    rep.violation(prefix + ':unreadable:' + str(e)[:40], 'generated pybind text is malformed: %s' % e,
                                  dict(kind='pybind-e2e', input=text, top=list(top), ignore=list(ignore), message=str(e)))
                continue
            for cat, msg in diff_categories(got, expected(m, top, tuple(x for x in ignore if x))):
                if cat in categories:
                    rep.violation('%s:%s:%s' % (prefix, cat, msg[:50]), msg, dict(kind='pybind-e2e', input=text, top=list(top), ignore=list(ignore), message=msg))
    rep.bounded['excluded_by_known_finding'] = dict(excluded)


def replay_pybind(obj):
    from props.pybind_e2e import read, Unreadable
    import gtwrap.interface_parser as ip
    from gen.iface import abs_module
    text = obj['input']
    out = generate_pybind(text, top=tuple(obj.get('top', [''])), ignore=tuple(obj.get('ignore', [''])))
    try:
        got = read(out)
    except Unreadable as e:
        print('observed: malformed output:', e)
        return 1
    m = abs_module(ip.Module.parseString(text))
    bad = diff_categories(got, expected(m, tuple(obj.get('top', [''])), tuple(x for x in obj.get('ignore', []) if x)))
    for cat, msg in bad:
        print('observed:', cat, msg)
    return 1 if bad else 0
