"""Calls, builtins, string/list/dict methods, iteration protocol."""
import ast
import hashlib
import string
import textwrap

from . import smt
from .smt import (mk_and, mk_or, mk_not, mk_eq, mk_ite, mk_concat, mk_add, mk_sub, mk_lt, mk_le,
                  mk_select, mk_store, mk_implies, str_lit, int_lit, TRUE, FALSE)
from .types import SV, NOCONST, parse_ty, atom_kind, ANY, T_STR, T_INT, T_BOOL, T_NONE
from .values import Unsupported, PathInfeasible, is_tag

_FORMATTER = string.Formatter()
MAX_INLINE_DEPTH = 12


DEEPCOPY_NOTE = ('copy.deepcopy: a fresh object graph of the same classes, disjoint from every existing object: at the time of the copy every '
                 'reference, list and dict stored in a copied object is itself a copy, and every str / int / bool / None attribute equals the '
                 "original's (custom __deepcopy__ hooks are not modelled)")


class Return(Exception):
    def __init__(self, value):
        self.value = value


class CallOps:
    # ------------------------------------------------------------ argument evaluation
    def eval_args(self, node):
        args = []
        for a in node.args:
            if isinstance(a, ast.Starred):
                v = self.ev(a.value)
                if v.kind == 'val':
                    v = self.narrow(v)
                if v.elems is None:
                    raise Unsupported('*args of symbolic length', node)
                args.extend(v.elems)
            else:
                args.append(self.ev(a))
        kwargs = {}
        for k in node.keywords:
            if k.arg is None:
                raise Unsupported('**kwargs', node)
            kwargs[k.arg] = self.ev(k.value)
        return args, kwargs

    def ev_Lambda(self, node):
        return SV('func', extra={'lambda': node, 'env': self.st.env})

    def ev_Call(self, node):
        st = self.st
        f = node.func
        if isinstance(f, ast.Attribute):
            # str.format on a literal needs the un-evaluated keywords for hole logging; evaluate normally
            base = self.ev(f.value)
            args, kwargs = self.eval_args(node)
            if base.kind == 'global':
                return self.call_global(base.const + '.' + f.attr, node, args, kwargs)
            return self.call_on_value(base, f.attr, args, kwargs, node)
        if isinstance(f, ast.Name):
            if f.id == 'isinstance' and f.id not in st.env:
                v = self.ev(node.args[0])
                c, _, _ = self.isinstance_term(v, node.args[1])
                return self.mk_bool(c)
            if f.id in ('old', 'forall', 'exists') and self.spec_mode and f.id not in st.env:
                return self.spec_builtin(f.id, node)
            if f.id == 'sum' and f.id not in st.env and len(node.args) == 2 and \
                    isinstance(node.args[0], (ast.GeneratorExp, ast.ListComp)) and \
                    isinstance(node.args[1], ast.List) and not node.args[1].elts:
                return self.flatten_comprehension(node.args[0], node)
            if f.id == 'implies' and self.spec_mode and len(node.args) == 2:
                a, _, _ = self.cond(node.args[0])
                if a == FALSE:
                    return self.mk_bool(TRUE)
                b, _, _ = self.cond(node.args[1])
                return self.mk_bool(mk_implies(a, b))
            args, kwargs = self.eval_args(node)
            if f.id in st.env or f.id in self.spec_env:
                fn = st.env.get(f.id) or self.spec_env[f.id]
                return self.call_value(fn, args, kwargs, node)
            return self.call_global(f.id, node, args, kwargs)
        fn = self.ev(f)
        args, kwargs = self.eval_args(node)
        return self.call_value(fn, args, kwargs, node)

    def call_value(self, fn, args, kwargs, node):
        if fn.kind == 'global':
            return self.call_global(fn.const, node, args, kwargs)
        if fn.kind != 'func':
            raise Unsupported('call of %s value' % fn.kind, node)
        ex = fn.extra
        if 'partial' in ex:
            f2, a2, k2 = ex['partial']
            kk = dict(k2)
            kk.update(kwargs)
            return self.call_value(f2, list(a2) + list(args), kk, node)
        if 'bound' in ex:
            obj, m = ex['bound']
            return self.call_method(obj, m, args, kwargs, node)
        if 'spec' in ex:
            return self.call_spec(ex['spec'], args, kwargs, node)
        if 'lambda' in ex:
            lam = ex['lambda']
            return self.inline_node(lam.args, [ast.Return(value=lam.body)], ex['env'], None, args, kwargs, node,
                                    ctx=None)
        if 'def' in ex:
            fd = ex['def']
            return self.inline_node(fd.args, fd.body, ex['env'], None, args, kwargs, node, ctx=None)
        raise Unsupported('callable', node)

    # ------------------------------------------------------------ globals / builtins
    def call_global(self, name, node, args, kwargs):
        st = self.st
        short = name.split('.')[-1]
        ln = getattr(node, 'lineno', 0)
        if name == 'len':
            return self.builtin_len(args[0], node)
        if name == 'str':
            return self.to_str(args[0], node) if args else self.const('')
        if name == 'repr':
            return self.to_repr(args[0], node)
        if name == 'print':
            return self.const(None)
        if name == 'list':
            if not args:
                return SV('list', elems=[], owned=True, ty=parse_ty('list'))
            return self.to_list(args[0], node)
        if name == 'tuple':
            v = self.to_list(args[0], node)
            return SV('tuple', elems=v.elems, seq=v.seq, ty=frozenset([('tuple', None)]))
        if name in ('min', 'max') and len(args) == 2 and all(a.kind == 'int' for a in args):
            a, b = args
            c = mk_lt(a.term, b.term) if name == 'min' else mk_lt(b.term, a.term)
            return self.mk_int(mk_ite(c, a.term, b.term))
        if name == 'map' and len(args) == 2:
            # map(f, xs) as a value: same as [f(x) for x in xs]
            st.env['__map_f'] = args[0]
            st.env['__map_xs'] = args[1]
            try:
                comp = ast.parse('[__map_f(__map_x) for __map_x in __map_xs]', mode='eval').body
                ast.fix_missing_locations(comp)
                for n in ast.walk(comp):
                    if not hasattr(n, 'lineno'):
                        n.lineno = getattr(node, 'lineno', 0)
                return self.ev(comp)
            finally:
                st.env.pop('__map_f', None)
                st.env.pop('__map_xs', None)
                st.env.pop('__map_x', None)
        if name == 'sorted':
            return self.builtin_sorted(args[0], kwargs, node)
        if name == 'all' or name == 'any':
            return self.builtin_allany(name, args[0], node)
        if name == 'sum':
            return self.builtin_sum(args, node)
        if name == 'super':
            return SV('super', extra={'cls': self.ctx_class(), 'self': st.env.get('self')})
        if name in ('textwrap.dedent', 'dedent'):
            s = args[0]
            if s.is_const:
                return self.const(textwrap.dedent(s.const))
            st.decls.fun('tw_dedent', ['String'], 'String')
            return self.mk_str("(tw_dedent %s)" % self.need_str(s, node).term)
        if name in ('textwrap.indent', 'indent'):
            s = args[0]
            p = args[1] if len(args) > 1 else kwargs['prefix']
            if s.is_const and p.is_const:
                return self.const(textwrap.indent(s.const, p.const))
            if p.is_const and p.const == '':
                return self.need_str(s, node)        # indenting by nothing leaves the text as it is
            st.decls.fun('tw_indent', ['String', 'String'], 'String')
            return self.mk_str("(tw_indent %s %s)" % (self.need_str(s, node).term, self.need_str(p, node).term))
        if name in ('reduce', 'functools.reduce'):
            return self.builtin_reduce(args, node)
        if name in ('partial', 'functools.partial'):
            return SV('func', extra={'partial': (args[0], args[1:], kwargs)})
        if name in ('copy.copy',):
            return self.shallow_copy(args[0], node)
        if name in ('deepcopy', 'copy.deepcopy'):
            return self.deep_copy(args[0], node)
        if name == 're.sub':
            if all(a.is_const for a in args):
                import re
                return self.const(re.sub(*[a.const for a in args]))
            st.decls.fun('re_sub', ['String', 'String', 'String'], 'String')
            return self.mk_str("(re_sub %s %s %s)" % tuple(self.need_str(a, node).term for a in args))
        if name in self.spec_funcs:
            return self.call_spec(name, args, kwargs, node)
        # exception constructors used as values
        if short in ('ValueError', 'TypeError', 'AssertionError', 'KeyError', 'IndexError', 'RuntimeError', 'OSError'):
            return SV('exc', const=short)
        # classes
        c = self.resolve_class_name(name)
        if c is not None:
            return self.construct(c, args, kwargs, node)
        # Class.method / module.function
        parts = name.split('.')
        if len(parts) >= 2:
            c = self.resolve_class_name('.'.join(parts[:-1]))
            if c is not None:
                k = self.repo.find_method(c, parts[-1])
                if k:
                    fi = self.repo.functions[k]
                    if fi.kind == 'staticmethod':
                        return self.call_function(k, None, args, kwargs, node)
                    if fi.kind == 'classmethod':
                        return self.call_function(k, SV('global', const=c), args, kwargs, node)
                    # unbound method call: first arg is self
                    return self.call_function(k, args[0], args[1:], kwargs, node)
        if name.startswith('cls.') and 'cls' not in st.env:
            pass
        if short in self.repo.functions and self.repo.functions[short].cls is None:
            return self.call_function(short, None, args, kwargs, node)
        raise Unsupported('call of %s' % name, node)

    def resolve_class_name(self, name):
        parts = name.split('.')
        if parts[0] in ('parser', 'instantiator', 'gtwrap', 'interface_parser', 'template_instantiator'):
            parts = [p for p in parts if p not in ('parser', 'instantiator', 'gtwrap', 'interface_parser',
                                                   'template_instantiator', 'template', 'function', 'type',
                                                   'classes')] or parts[-1:]
        nm = '.'.join(parts)
        if nm and nm[0].isupper() or '.' in nm:
            c = self.repo.resolve_class(nm)
            if c is not None and (parts[-1] == self.repo.classes[c]['short']):
                return c
        return None

    def ctx_class(self):
        for fi in reversed(self.ctx_stack):
            if fi is not None and fi.cls:
                return fi.cls
        return None

    def need_str(self, sv, node=None):
        if sv.kind == 'val':
            sv = self.narrow(sv)
        if sv.kind != 'str':
            self.st.oblige(FALSE, 'TypeError: expected str, got %s' % sv.kind, getattr(node, 'lineno', 0))
            raise PathInfeasible()
        return sv

    def builtin_len(self, v, node):
        if v.kind == 'val':
            v = self.narrow(v)
        if v.kind in ('list', 'tuple'):
            return self.mk_int(self.seq_len(v))
        if v.kind == 'str':
            if v.is_const:
                return self.const(len(v.const))
            return self.mk_int("(str.len %s)" % v.term)
        if v.kind == 'ref':
            return self.call_method(v, '__len__', [], {}, node)
        if v.kind == 'dict' and v.is_const:
            return self.const(len(v.const))
        raise Unsupported('len of %s' % v.kind, node)

    def to_list(self, v, node):
        if v.kind == 'val':
            v = self.narrow(v)
        if v.kind in ('list', 'tuple'):
            if v.elems is not None:
                return SV('list', elems=list(v.elems), owned=True, ty=frozenset([('list', self.elem_ty(v))]))
            return SV('list', seq=self.seq_of(v), owned=True, ty=frozenset([('list', self.elem_ty(v))]))
        if v.kind == 'str' and v.is_const:
            return SV('list', elems=[self.const(c) for c in v.const], owned=True, ty=parse_ty('list[str]'))
        if v.kind == 'str':
            st = self.st
            st.decls.fun('chars', ['String'], 'Int')
            q = "(chars %s)" % v.term
            st.assume(mk_eq("(len %s)" % q, "(str.len %s)" % v.term), 'def')
            self.join_axioms('""', q)
            st.assume(mk_eq("(sjoin \"\" %s)" % q, v.term), 'def')
            self.lib_assumptions.add("list(s) for a str s: a sequence of len(s) one-character strings whose ''.join is s")
            return SV('list', seq=q, owned=True, ty=parse_ty('list[str]'))
        raise Unsupported('list() of %s' % v.kind, node)

    def builtin_sorted(self, xs, kwargs, node):
        st = self.st
        if xs.kind == 'val':
            xs = self.narrow(xs)
        if xs.elems is not None and len(xs.elems) <= 1:
            return SV('list', elems=list(xs.elems), owned=True, ty=xs.ty)
        q0 = self.seq_of(xs)
        q = st.decls.const('qsorted', 'Int')
        if st.decls.bound:
            raise Unsupported('sorted() inside a quantified body', node)
        sig = st.decls.bound_var('perm')
        st.decls.fun(sig, ['Int'], 'Int')
        n = "(len %s)" % q0
        st.assume(mk_eq("(len %s)" % q, n), 'lib')
        st.assume("(forall ((j Int)) (! (=> (and (<= 0 j) (< j %s)) (and (<= 0 (%s j)) (< (%s j) %s) (= (at %s j) (at %s (%s j))))) :pattern ((at %s j))))"
                  % (n, sig, sig, n, q, q0, sig, q), 'lib')
        st.assume("(forall ((j Int) (k Int)) (=> (and (<= 0 j) (< j %s) (<= 0 k) (< k %s) (= (%s j) (%s k))) (= j k)))"
                  % (n, n, sig, sig), 'lib')
        self.lib_assumptions.add('sorted(): result is a permutation of its argument (ordering by key not modelled)')
        return SV('list', seq=q, owned=True, ty=frozenset([('list', self.elem_ty(xs))]), extra={'sorted_of': q0, 'perm': sig})

    def builtin_allany(self, name, xs, node):
        if xs.kind == 'val':
            xs = self.narrow(xs)
        if xs.elems is not None:
            ts = [self.truthy(e) for e in xs.elems]
            return self.mk_bool(mk_and(*ts) if name == 'all' else mk_or(*ts))
        if xs.extra and 'map' in (xs.extra or {}):
            j, bval, side = xs.extra['map']
            n = "(len %s)" % xs.seq
            tv = self.truthy(SV('val', bval, self.elem_ty(xs)))
            rng = mk_and(mk_le('0', j), mk_lt(j, n))
            if name == 'all':
                return self.mk_bool("(forall ((%s Int)) (=> %s %s))" % (j, mk_and(rng, *side), tv))
            return self.mk_bool("(exists ((%s Int)) %s)" % (j, mk_and(rng, *(side + [tv]))))
        raise Unsupported('%s() over opaque sequence' % name, node)

    def builtin_sum(self, args, node):
        """sum(list_of_lists, []) -- flattening; the result is an opaque sequence of the inner element type"""
        st = self.st
        if len(args) == 2 and args[1].kind == 'list' and args[1].elems == []:
            xs = args[0]
            inner = self.elem_ty(xs)
            ety = set()
            for a in inner:
                if isinstance(a, tuple) and a[0] == 'list':
                    ety |= set(a[1])
                else:
                    ety.add('any')
            if xs.elems is not None:
                out = SV('list', elems=[], owned=True, ty=parse_ty('list'))
                for e in xs.elems:
                    out = self.seq_concat(out, e)
                return out
            q = st.decls.const('qflat', 'Int')
            st.assume(mk_le('0', "(len %s)" % q), 'wf')
            return SV('list', seq=q, owned=True, ty=frozenset([('list', frozenset(ety))]), extra={'flatten_of': self.seq_of(xs)})
        raise Unsupported('sum()', node)

    def flatten_comprehension(self, gen, node):
        """sum((f(x) for x in xs), []): opaque flattened list of the inner element type"""
        st = self.st
        g = gen.generators[0]
        if len(gen.generators) != 1 or g.ifs:
            raise Unsupported('sum over filtered/nested generator', node)
        it = self.iter_spec(g.iter, node)
        if it['concrete'] is not None:
            out = SV('list', elems=[], owned=True, ty=parse_ty('list'))
            saved = dict(st.env)
            for item in it['concrete']:
                self.bind_target(g.target, item)
                v = self.ev(gen.elt)
                out = self.seq_concat(out, v)
            st.env = saved
            return out
        j = st.decls.const('fj', 'Int')
        st.assume(mk_and(mk_le('0', j), mk_lt(j, it['count'])), 'pc')
        saved = dict(st.env)
        heap_before = dict(st.heap)
        self.bind_target(g.target, it['item'](j))
        v = self.ev(gen.elt)
        st.env = saved
        if v.kind == 'val':
            v = self.narrow(v)
        if v.kind not in ('list', 'tuple'):
            raise Unsupported('sum of non-lists', node)
        for a in list(st.heap):
            if heap_before.get(a, st.decls.base_heap.get(a)) != st.heap[a]:
                st.heap[a] = st.decls.const('H_' + a, '(Array Int Val)')
                st.bump(a)
        q = st.decls.const('qflat', 'Int')
        st.assume(mk_le('0', "(len %s)" % q), 'wf')
        self.lib_assumptions.add('sum(generator, []): result modelled as an opaque list of the inner element type '
                                 '(obligations of one arbitrary element evaluation are checked)')
        return SV('list', seq=q, owned=True, ty=frozenset([('list', self.elem_ty(v))]))

    def builtin_reduce(self, args, node):
        # reduce(f, text.splitlines()) re-indents text: modelled as an uninterpreted function of the text
        f, xs = args[0], args[1]
        if xs.elems is not None and len(args) == 2:
            if not xs.elems:
                self.fail('TypeError', 'reduce() of empty sequence with no initial value', getattr(node, 'lineno', 0))
            acc = xs.elems[0]
            for x in xs.elems[1:]:
                acc = self.call_value(f, [acc, x], {}, node)
            return acc
        if xs.extra and isinstance(xs.extra, dict) and 'splitlines_of' in xs.extra:
            src = xs.extra['splitlines_of']
            if f.kind == 'func' and 'lambda' in f.extra:
                tag = hashlib.sha1(ast.dump(f.extra['lambda']).encode()).hexdigest()[:8]
            elif f.kind == 'func' and 'bound' in f.extra:
                tag = f.extra['bound'][1]
            else:
                raise Unsupported('reduce function', node)
            fn = 'reindent_' + tag
            self.st.decls.fun(fn, ['String'], 'String')
            self.lib_assumptions.add('reduce(f, s.splitlines()) treated as an uninterpreted function of s (layout only)')
            return self.mk_str("(%s %s)" % (fn, src.term))
        raise Unsupported('reduce', node)

    # ------------------------------------------------------------ copies
    def shallow_copy(self, v, node):
        st = self.st
        if v.kind == 'val':
            v = self.narrow(v)
        if v.kind in ('none', 'int', 'str', 'bool', 'tuple'):
            return v
        if v.kind == 'list':
            return self.to_list(v, node)
        if v.kind != 'ref':
            raise Unsupported('copy of %s' % v.kind, node)
        classes = self.ref_classes(v.ty)
        r = self.new_ref()
        st.assume(mk_eq("(cls %s)" % r, "(cls %s)" % v.term), 'alloc')
        attrs = set()
        for c in classes:
            for m in self.repo.mro(c):
                attrs |= set(self.schema.get(m, {}).keys())
        for a in sorted(attrs):
            st.heap[a] = mk_store(st.heap_arr(a), r, mk_select(st.heap_arr(a), v.term))
            st.bump(a)
        self.lib_assumptions.add('copy.copy: fresh object, same class, every schema attribute copied by reference')
        return SV('ref', r, v.ty, extra='fresh')

    def deep_copy(self, v, node):
        if v.kind in ('none', 'int', 'str', 'bool'):
            return v
        if v.kind in ('list', 'tuple') and v.elems is not None and all(e.kind in ('str', 'int', 'bool', 'none') for e in v.elems):
            return SV(v.kind, elems=list(v.elems), owned=(v.kind == 'list'), ty=v.ty)
        if v.kind in ('list', 'tuple'):
            ks = {atom_kind(a) for a in self.elem_ty(v)}
            if ks <= {'str', 'int', 'bool', 'none'}:
                return SV(v.kind, seq=self.seq_of(v), owned=(v.kind == 'list'), ty=v.ty)
        if v.kind == 'val':
            v = self.narrow(v)
        if v.kind == 'list':
            # a fresh list of the same length whose elements are fresh copies (contents unconstrained)
            st = self.st
            if st.alloc is None:
                st.alloc = st.decls.global_const('alloc', 'Int')
            a0 = st.alloc
            a1 = st.decls.const('alloc', 'Int')
            st.assume(mk_lt(a0, a1), 'alloc')
            st.alloc = a1
            q = st.decls.const('qdeep', 'Int')
            st.assume(mk_eq("(len %s)" % q, "(len %s)" % self.seq_of(v)), 'lib')
            st.seqh = mk_store(self.seqheap(), a0, q)
            st.bump('SEQ')
            self.lib_assumptions.add(DEEPCOPY_NOTE)
            k = st.decls.fresh_fun('orig', ['Int'], 'Int')
            df = (a0, a1, dict(st.heap), st.seqh, k, self.seq_of(v))
            return SV('list', a0, v.ty, extra={'deepfresh': df})
        if v.kind == 'ref':
            # over-approximation: an arbitrary fresh object graph of the same class; everything reachable from the copy
            # lies in a block of addresses allocated by the copy (its contents are not related to the original's)
            st = self.st
            if st.alloc is None:
                st.alloc = st.decls.global_const('alloc', 'Int')
            a0 = st.alloc
            a1 = st.decls.const('alloc', 'Int')
            st.assume(mk_lt(a0, a1), 'alloc')
            st.alloc = a1
            st.assume(mk_eq("(cls %s)" % a0, "(cls %s)" % v.term), 'alloc')
            self.lib_assumptions.add(DEEPCOPY_NOTE)
            k = st.decls.fresh_fun('orig', ['Int'], 'Int')
            st.assume(mk_eq("(%s %s)" % (k, a0), v.term), 'lib')
            df = (a0, a1, dict(st.heap), self.seqheap(), k, None)
            return SV('ref', a0, v.ty, extra={'deepfresh': df})
        raise Unsupported('deepcopy of %s' % v.kind, node)

    # ------------------------------------------------------------ method calls on values
    def call_on_value(self, base, m, args, kwargs, node):
        if base.kind == 'val':
            base = self.narrow(base)
        k = base.kind
        if k == 'str':
            return self.str_method(base, m, args, kwargs, node)
        if k == 'list':
            return self.list_method(base, m, args, kwargs, node)
        if k == 'tuple':
            if m == 'index':
                return self.list_method(base, m, args, kwargs, node)
            raise Unsupported('tuple.%s' % m, node)
        if k == 'dict':
            return self.dict_method(base, m, args, kwargs, node)
        if k == 'ref':
            return self.call_method(base, m, args, kwargs, node)
        if k == 'arr':
            if m == 'set':
                ks, vs = base.extra
                kk = self.box(args[0]) if ks == 'Val' else args[0].term
                vv = self.box(args[1]) if vs == 'Val' else args[1].term
                return SV('arr', mk_store(base.term, kk, vv), base.ty, extra=base.extra)
            raise Unsupported('arr.%s' % m, node)
        if k == 'super':
            cur = base.extra['cls']
            selfsv = base.extra['self']
            mro = self.repo.mro(self.ref_classes(selfsv.ty)[0]) if selfsv is not None else []
            # the class the executing function is defined in
            after = self.repo.mro(cur)[1:] if cur else []
            for c in after:
                key = self.repo.classes[c]['methods'].get(m)
                if key:
                    return self.call_function(key, selfsv, args, kwargs, node)
            if m == '__init__':
                return self.const(None)      # object.__init__
            raise Unsupported('super().%s' % m, node)
        if k == 'none':
            self.st.oblige(FALSE, 'AttributeError: None.%s()' % m, getattr(node, 'lineno', 0))
            raise PathInfeasible()
        if k == 'file':
            if m == 'read':
                return self.mk_str(self.st.decls.const('filetext', 'String'))
            if m == 'write':
                return self.const(None)
            raise Unsupported('file.%s' % m, node)
        if k == 'global':
            return self.call_global(base.const + '.' + m, node, args, kwargs)
        raise Unsupported('method %s on %s' % (m, k), node)

    def call_method(self, obj, m, args, kwargs, node, fallback=None):
        st = self.st
        classes = self.ref_classes(obj.ty)
        groups = {}
        for c in classes:
            key = self.repo.find_method(c, m)
            if key is None and fallback:
                key = self.repo.find_method(c, fallback)
            if key is None:
                if m in ('__str__', '__repr__'):
                    raise Unsupported('default object repr of %s' % c, node)
                raise Unsupported('no method %s on %s' % (m, c), node)
            groups.setdefault(key, []).append(c)
        keys = sorted(groups)
        if len(keys) > 1:
            cons = [self.contracts.get(k) for k in keys]
            if all(c is not None and c.result_is is not None and not c.modifies and not c.ensures for c in cons) and \
                    len({(c.result_is, tuple(c.requires)) for c in cons}) == 1:
                # every override has the same pure contract: no case split needed
                return self.call_function(keys[0], obj, args, kwargs, node)
        if len(keys) == 1:
            return self.call_function(keys[0], obj, args, kwargs, node)
        d = st.decide(len(keys), 'dispatch:%s' % m)
        key = keys[d]
        st.assume(self.cls_in(obj.term, groups[key]))
        obj2 = SV('ref', obj.term, frozenset(('ref', c, True) for c in groups[key]))
        return self.call_function(key, obj2, args, kwargs, node)

    def call_function(self, key, selfsv, args, kwargs, node):
        fi = self.repo.functions[key]
        con = self.contracts.get(key)
        if con is not None and not (self.verifying == key and self.inline_self):
            return self.apply_contract(con, fi, selfsv, args, kwargs, node)
        if key in self.no_inline:
            raise Unsupported('call of %s needs a contract' % key, node)
        return self.inline(fi, selfsv, args, kwargs, node)

    def inline(self, fi, selfsv, args, kwargs, node):
        if len(self.ctx_stack) > MAX_INLINE_DEPTH or self.ctx_stack.count(fi) >= 1:
            raise Unsupported('recursive or too deep inlining of %s (needs a contract)' % fi.key, node)
        self.inlined.add(fi.key)
        allargs = list(args)
        if fi.kind in ('method', 'classmethod'):
            allargs = [selfsv] + allargs
        try:
            return self.inline_node(fi.node.args, fi.node.body, {}, fi, allargs, kwargs, node, ctx=fi)
        except Unsupported as e:
            if '[in ' not in str(e):
                e.args = ('%s [in inlined %s, %s line %s]' % (e.args[0], fi.key, fi.path, getattr(e.node, 'lineno', '?')),)
            raise

    def inline_node(self, argspec, body, closure, fi, args, kwargs, node, ctx):
        st = self.st
        params = [a.arg for a in argspec.posonlyargs + argspec.args]
        defaults = argspec.defaults
        env = dict(closure)
        if len(args) > len(params):
            raise Unsupported('too many positional arguments', node)
        for p, a in zip(params, args):
            env[p] = a
        saved = st.env
        for i, p in enumerate(params[len(args):], start=len(args)):
            if p in kwargs:
                env[p] = kwargs[p]
            else:
                di = i - (len(params) - len(defaults))
                if di < 0:
                    raise Unsupported('missing argument %s' % p, node)
                st.env = {}
                env[p] = self.ev(defaults[di])
                st.env = saved
        for kw in argspec.kwonlyargs:
            if kw.arg in kwargs:
                env[kw.arg] = kwargs[kw.arg]
        extra = set(kwargs) - set(params) - {k.arg for k in argspec.kwonlyargs}
        if extra:
            raise Unsupported('unexpected keyword %s' % extra, node)
        st.env = env
        self.ctx_stack.append(ctx)
        self.loop_ord_stack.append([0])
        try:
            self.exec_block(body)
            res = self.const(None)
        except Return as r:
            res = r.value
        finally:
            self.loop_ord_stack.pop()
            self.ctx_stack.pop()
            st.env = saved
        return res

    def construct(self, cname, args, kwargs, node):
        st = self.st
        r = self.new_ref()
        st.assume(mk_eq("(cls %s)" % r, int_lit(self.repo.class_id(cname))), 'alloc')
        obj = SV('ref', r, frozenset([('ref', cname, True)]))
        key = self.repo.find_method(cname, '__init__')
        if key is not None:
            self.call_function(key, obj, args, kwargs, node)
        return obj

    # ------------------------------------------------------------ str methods
    def str_method(self, s, m, args, kwargs, node):
        st = self.st
        if m == 'format':
            return self.str_format(s, args, kwargs, node)
        if m == 'join':
            return self.str_join(s, args[0], node)
        if m == 'replace':
            a, b = self.need_str(args[0], node), self.need_str(args[1], node)
            if s.is_const and a.is_const and b.is_const:
                return self.const(s.const.replace(a.const, b.const))
            if a.is_const and a.const == '':
                raise Unsupported('replace of empty pattern', node)
            if not a.is_const:
                # python replaces nothing... when old == '' it inserts between characters
                st.oblige(mk_not(mk_eq(a.term, '""')), 'replace(): pattern is not empty (empty pattern semantics not modelled)', node.lineno)
            return self.mk_str("(str.replace_all %s %s %s)" % (s.term, a.term, b.term))
        if m in ('strip', 'lstrip', 'rstrip', 'upper', 'lower', 'capitalize', 'title'):
            if s.is_const and all(a.is_const for a in args):
                return self.const(getattr(s.const, m)(*[a.const for a in args]))
            fn = 'str_' + m
            if args:
                raise Unsupported('%s with arguments' % m, node)
            st.decls.fun(fn, ['String'], 'String')
            self.lib_assumptions.add('str.%s is an uninterpreted function String -> String' % m)
            return self.mk_str("(%s %s)" % (fn, s.term))
        if m == 'splitlines':
            if s.is_const:
                return SV('list', elems=[self.const(x) for x in s.const.splitlines()], owned=True, ty=parse_ty('list[str]'))
            q = st.decls.const('qlines', 'Int')
            st.assume(mk_le('0', "(len %s)" % q), 'lib')
            return SV('list', seq=q, owned=True, ty=parse_ty('list[str]'), extra={'splitlines_of': s})
        if m == 'split':
            sep = self.need_str(args[0], node) if args else None
            if s.is_const and sep is not None and sep.is_const:
                return SV('list', elems=[self.const(x) for x in s.const.split(sep.const)], owned=True, ty=parse_ty('list[str]'))
            if sep is None or not sep.is_const or sep.const == '':
                raise Unsupported('split without constant separator', node)
            return self.str_split(s, sep, node)
        if m in ('startswith', 'endswith'):
            a = self.need_str(args[0], node)
            if s.is_const and a.is_const:
                return self.const(getattr(s.const, m)(a.const))
            op = 'str.prefixof' if m == 'startswith' else 'str.suffixof'
            return self.mk_bool("(%s %s %s)" % (op, a.term, s.term))
        if m == 'index' or m == 'find':
            raise Unsupported('str.%s' % m, node)
        self.st.oblige(FALSE, 'AttributeError: str has no method %s' % m, getattr(node, 'lineno', 0))
        raise PathInfeasible()

    def str_split(self, s, sep, node):
        """parts = s.split(sep): specified by its inverse"""
        st = self.st
        # split is a function of (s, sep): the sequence is a term over them, so two splits of the same string coincide
        st.decls.fun('ssplit', ['String', 'String'], 'Int')
        q = "(ssplit %s %s)" % (s.term, sep.term)
        st.decls.fun('sjoin', ['String', 'Int'], 'String')
        st.assume(mk_eq("(at %s 0)" % q, "(VS (ite (str.contains %s %s) (str.substr %s 0 (str.indexof %s %s 0)) %s))"
                        % (s.term, sep.term, s.term, s.term, sep.term, s.term)), 'lib')
        st.assume(mk_le('1', "(len %s)" % q), 'lib')
        st.assume(mk_eq("(sjoin %s %s)" % (sep.term, q), s.term), 'lib')
        st.assume("(forall ((j Int)) (=> (and (<= 0 j) (< j (len %s))) (and ((_ is VS) (at %s j)) (not (str.contains (vs (at %s j)) %s)))))"
                  % (q, q, q, sep.term), 'lib')
        st.assume(mk_eq(mk_eq("(len %s)" % q, '1'), mk_not("(str.contains %s %s)" % (s.term, sep.term))), 'lib')
        self.join_axioms(sep.term, q)
        self.lib_assumptions.add('str.split(sep): parts contain no sep, sep.join(parts) == s, one part iff sep not in s, the first part is the text before the first sep')
        return SV('list', seq=q, owned=True, ty=parse_ty('list[str]'))

    def join_axioms(self, sep, q):
        st = self.st
        key = ('join', sep, q)
        if key in self.seq_axioms_done:
            return
        self.seq_axioms_done.add(key)
        st.decls.fun('sjoin', ['String', 'Int'], 'String')
        j = "(sjoin %s %s)" % (sep, q)
        if q.startswith('(s_app '):
            parts = smt.split_top(q[7:-1])
            if len(parts) == 2:
                q0, v = parts
                self.join_axioms(sep, q0)
                j0 = "(sjoin %s %s)" % (sep, q0)
                st.assume(mk_implies(is_tag('str', v),
                                     mk_eq(j, mk_ite(mk_eq("(len %s)" % q0, '0'), "(vs %s)" % v,
                                                     mk_concat([j0, sep, "(vs %s)" % v])))), 'def')
        st.assume(mk_implies(mk_eq("(len %s)" % q, '0'), mk_eq(j, '""')), 'def')
        st.assume(mk_implies(mk_eq("(len %s)" % q, '1'), mk_eq(j, "(vs (at %s 0))" % q)), 'def')
        st.assume(mk_implies(mk_eq("(len %s)" % q, '2'),
                             mk_eq(j, mk_concat(["(vs (at %s 0))" % q, sep, "(vs (at %s 1))" % q]))), 'def')

    def str_join(self, sep, xs, node):
        st = self.st
        if xs.kind == 'val':
            xs = self.narrow(xs)
        if xs.kind not in ('list', 'tuple'):
            raise Unsupported('join over %s' % xs.kind, node)
        if xs.elems is not None:
            parts = []
            for i, e in enumerate(xs.elems):
                if i:
                    parts.append(sep.term)
                parts.append(self.need_str(e, node).term)
            return self.mk_str(mk_concat(parts))
        q = self.seq_of(xs)
        ks = {atom_kind(a) for a in self.elem_ty(xs)}
        if ks != {'str'}:
            st.oblige("(forall ((j Int)) (=> (and (<= 0 j) (< j (len %s))) ((_ is VS) (at %s j))))" % (q, q),
                      'join(): every element is a str', node.lineno)
        self.join_axioms(sep.term, q)
        return self.mk_str("(sjoin %s %s)" % (sep.term, q))

    def str_format(self, tmpl, args, kwargs, node):
        parts = []
        auto = 0
        holes = []
        if not tmpl.is_const:
            # a template that was itself built by concatenation / format: literal pieces are templates,
            # symbolic pieces must not contain braces (else python would parse them as fields)
            pieces = smt.split_top(tmpl.term[8:-1]) if tmpl.term.startswith('(str.++ ') else None
            if not pieces:
                raise Unsupported('format on a non-literal template', node)
            parsed = []
            for pc in pieces:
                if smt.is_str_lit(pc):
                    try:
                        parsed += list(_FORMATTER.parse(smt.str_lit_value(pc)))
                    except ValueError as e:
                        raise Unsupported('bad format string: %s' % e, node)
                else:
                    self.st.oblige(mk_and(mk_not('(str.contains %s "{")' % pc), mk_not('(str.contains %s "}")' % pc)),
                                   'format(): the non-literal part of the template contains no braces', node.lineno)
                    parsed.append((('sym', pc), None, None, None))
            tmpl_text = tmpl.term
        else:
            try:
                parsed = list(_FORMATTER.parse(tmpl.const))
            except ValueError as e:
                raise Unsupported('bad format string: %s' % e, node)
            tmpl_text = tmpl.const
        for lit, field, spec, conv in parsed:
            if isinstance(lit, tuple):
                parts.append(lit[1])
                continue
            if lit:
                parts.append(str_lit(lit))
            if field is None:
                continue
            if spec not in ('', None):
                raise Unsupported('format spec %r' % spec, node)
            first, rest = _split_field(field)
            if first == '':
                first = str(auto)
                auto += 1
            if first.isdigit():
                i = int(first)
                if i >= len(args):
                    self.st.oblige(FALSE, 'IndexError in format', node.lineno)
                    raise PathInfeasible()
                v = args[i]
            else:
                if first not in kwargs:
                    self.st.oblige(FALSE, 'KeyError %s in format' % first, node.lineno)
                    raise PathInfeasible()
                v = kwargs[first]
            for kind, name in rest:
                if kind == 'attr':
                    v = self.getattr(v, name, node)
                else:
                    raise Unsupported('index in format field', node)
            sv = self.to_repr(v, node) if conv == 'r' else self.to_str(v, node)
            holes.append((field, v, sv))
            parts.append(sv.term)
        self.format_hook(tmpl_text, holes, node)
        return self.mk_str(mk_concat(parts))

    def format_hook(self, template, holes, node):
        pass

    # ------------------------------------------------------------ list methods
    def list_method(self, xs, m, args, kwargs, node):
        st = self.st
        ln = getattr(node, 'lineno', 0)
        if m == 'index':
            x = args[0]
            if xs.elems is not None:
                res = None
                conds = []
                for i in range(len(xs.elems) - 1, -1, -1):
                    c = self.py_eq(x, xs.elems[i])
                    conds.append(c)
                    res = int_lit(i) if res is None else mk_ite(c, int_lit(i), res)
                st.oblige(mk_or(*conds), 'ValueError: value is in list', ln)
                if res is None:
                    raise PathInfeasible()
                return self.mk_int(res)
            q = self.seq_of(xs)
            bx = self.box(x)
            r = st.decls.const('idx', 'Int')
            inlist = "(exists ((j Int)) (and (<= 0 j) (< j (len %s)) (= (at %s j) %s)))" % (q, q, bx)
            st.oblige(inlist, 'ValueError: value is in list', ln)
            st.assume(mk_and(mk_le('0', r), mk_lt(r, "(len %s)" % q), mk_eq("(at %s %s)" % (q, r), bx)), 'lib')
            st.assume("(forall ((j Int)) (=> (and (<= 0 j) (< j %s)) (not (= (at %s j) %s))))" % (r, q, bx), 'lib')
            return self.mk_int(r)
        if xs.kind != 'list':
            raise Unsupported('%s on %s' % (m, xs.kind), node)
        if m == 'append':
            self.list_append(xs, args[0])
            return self.const(None)
        if m == 'extend':
            other = args[0]
            if other.kind == 'val':
                other = self.narrow(other)
            self.list_extend(xs, other, node)
            return self.const(None)
        if m == 'pop':
            if xs.owned and xs.elems is not None and (not args or args[0].is_const):
                i = args[0].const if args else -1
                if not xs.elems:
                    st.oblige(FALSE, 'pop from empty list', ln)
                    raise PathInfeasible()
                return xs.elems.pop(i)
            idx = args[0] if args else self.const(-1)
            if not idx.is_const or idx.const not in (0, -1):
                raise Unsupported('pop at general index', node)
            q = self.seq_of(xs)
            n = "(len %s)" % q
            st.oblige(mk_lt('0', n), 'pop from non-empty list', ln)
            if idx.const == 0:
                item = self.elem_unbox(xs, "(at %s 0)" % q, self.elem_ty(xs))
                nq = self.s_slice(q, '1', n)
            else:
                item = self.elem_unbox(xs, "(at %s %s)" % (q, mk_sub(n, '1')), self.elem_ty(xs))
                nq = self.s_slice(q, '0', mk_sub(n, '1'))
            self.list_set_seq(xs, nq)
            return item
        if m == 'remove':
            x = args[0]
            if xs.elems is not None and xs.owned:
                for i, e in enumerate(xs.elems):
                    c = self.py_eq(x, e)
                    if c == TRUE:
                        del xs.elems[i]
                        return self.const(None)
                    if c != FALSE:
                        raise Unsupported('remove with undecided equality', node)
                st.oblige(FALSE, 'ValueError: list.remove(x): x not in list', ln)
                raise PathInfeasible()
            raise Unsupported('remove on symbolic list', node)
        raise Unsupported('list.%s' % m, node)

    def list_set_seq(self, xs, nq):
        st = self.st
        if xs.owned:
            xs.seq = nq
            xs.elems = None
        else:
            st.seqh = mk_store(self.seqheap(), xs.term, nq)
            st.bump('SEQ')

    def list_append(self, xs, v):
        if xs.owned and xs.elems is not None:
            xs.elems.append(v)
            return
        q = self.seq_of(xs)
        self.list_set_seq(xs, self.s_app(q, self.box(v)))

    def list_extend(self, xs, other, node):
        if other.kind not in ('list', 'tuple'):
            raise Unsupported('extend with %s' % other.kind, node)
        if xs.owned and xs.elems is not None and other.elems is not None:
            xs.elems.extend(other.elems)
            return
        q = self.seq_of(xs)
        self.list_set_seq(xs, self.s_cat(q, self.seq_of(other)))

    # ------------------------------------------------------------ dict methods
    def dict_method(self, d, m, args, kwargs, node):
        st = self.st
        if m == 'get':
            key = args[0]
            default = args[1] if len(args) > 1 else self.const(None)
            if d.is_const or d.owned:
                items = d.extra['items']
                res = self.box(default)
                tys = set(default.ty or ANY)
                for k, v in reversed(items):
                    res = mk_ite(self.py_eq(key, k), self.box(v), res)
                    tys |= set(v.ty)
                if smt.is_str_lit(res) or not res.startswith('(ite'):
                    pass
                return self.unbox(res, frozenset(tys), assume=False)
            has = self.dict_has(d, key)
            val = self.dict_read(d, key)
            vt = self.dict_val_ty(d)
            ty = frozenset(set(vt) | set(default.ty or ANY))
            return self.unbox(mk_ite(has, self.box(val), self.box(default)), ty, assume=False)
        if d.owned and m in ('values', 'keys', 'items'):
            items = d.extra['items']
            if m == 'values':
                return SV('list', elems=[v for _, v in items], owned=True, ty=parse_ty('list'))
            if m == 'keys':
                return SV('list', elems=[k for k, _ in items], owned=True, ty=parse_ty('list'))
            return SV('list', elems=[SV('tuple', elems=[k, v], ty=parse_ty('tuple')) for k, v in items], owned=True, ty=parse_ty('list'))
        if m == 'values' or m == 'items' or m == 'keys':
            raise Unsupported('dict.%s' % m, node)
        raise Unsupported('dict.%s' % m, node)

    # ------------------------------------------------------------ iteration protocol
    def iter_spec(self, itnode, node):
        """describe an iterable: dict(concrete=[SV..]|None, count=Int term, item=f(idx term)->SV)"""
        if isinstance(itnode, ast.Call) and isinstance(itnode.func, ast.Name) and itnode.func.id not in self.st.env:
            fn = itnode.func.id
            if fn == 'range':
                a = [self.ev(x) for x in itnode.args]
                if any(x.kind != 'int' for x in a):
                    raise Unsupported('range of non-int', node)
                lo = a[0].term if len(a) >= 2 else '0'
                hi = a[1].term if len(a) >= 2 else a[0].term
                if len(a) == 3:
                    raise Unsupported('range step', node)
                if smt.is_int_lit(lo) and smt.is_int_lit(hi):
                    return dict(concrete=[self.const(i) for i in range(smt.int_lit_value(lo), smt.int_lit_value(hi))],
                                count=None, item=None)
                cnt = mk_ite(mk_lt(hi, lo), '0', mk_sub(hi, lo))
                return dict(concrete=None, count=cnt, item=lambda j: self.mk_int(mk_add(lo, j)))
            if fn == 'enumerate':
                inner = self.iter_spec(itnode.args[0], node)
                start = self.ev(itnode.args[1]) if len(itnode.args) > 1 else self.const(0)
                for kw in itnode.keywords:
                    if kw.arg == 'start':
                        start = self.ev(kw.value)
                if inner['concrete'] is not None:
                    if not start.is_const:
                        raise Unsupported('enumerate start', node)
                    return dict(concrete=[SV('tuple', elems=[self.const(start.const + i), x], ty=parse_ty('tuple'))
                                          for i, x in enumerate(inner['concrete'])], count=None, item=None)
                return dict(concrete=None, count=inner['count'],
                            item=lambda j: SV('tuple', elems=[self.mk_int(mk_add(start.term, j)), inner['item'](j)],
                                              ty=parse_ty('tuple')))
            if fn == 'zip':
                inners = [self.iter_spec(x, node) for x in itnode.args]
                if all(i['concrete'] is not None for i in inners):
                    return dict(concrete=[SV('tuple', elems=list(t), ty=parse_ty('tuple'))
                                          for t in zip(*[i['concrete'] for i in inners])], count=None, item=None)
                if any(i['concrete'] is not None for i in inners):
                    raise Unsupported('zip of concrete and symbolic', node)
                cnt = inners[0]['count']
                for i in inners[1:]:
                    cnt = mk_ite(mk_lt(i['count'], cnt), i['count'], cnt)
                return dict(concrete=None, count=cnt,
                            item=lambda j: SV('tuple', elems=[i['item'](j) for i in inners], ty=parse_ty('tuple')))
            if fn == 'reversed':
                inner = self.iter_spec(itnode.args[0], node)
                if inner['concrete'] is not None:
                    return dict(concrete=list(reversed(inner['concrete'])), count=None, item=None)
                n = inner['count']
                return dict(concrete=None, count=n, item=lambda j: inner['item'](mk_sub(mk_sub(n, '1'), j)))
            if fn == 'map':
                f = self.ev(itnode.args[0])
                inner = self.iter_spec(itnode.args[1], node)
                if f.kind == 'global' and f.const == 'str':
                    mapper = lambda v: self.to_str(v, node)
                elif f.kind == 'func':
                    mapper = lambda v: self.call_value(f, [v], {}, node)
                else:
                    raise Unsupported('map function', node)
                if inner['concrete'] is not None:
                    return dict(concrete=[mapper(x) for x in inner['concrete']], count=None, item=None)
                return dict(concrete=None, count=inner['count'], item=lambda j: mapper(inner['item'](j)))
        v = self.ev(itnode)
        if v.kind == 'val':
            v = self.narrow(v)
        if v.kind in ('list', 'tuple'):
            if v.elems is not None:
                return dict(concrete=list(v.elems), count=None, item=None, sv=v)
            q = self.seq_of(v)
            ety = self.elem_ty(v)
            df = v.extra.get('deepfresh') if isinstance(v.extra, dict) else None
            if df is not None and v.kind == 'list' and v.term is not None:
                return dict(concrete=None, count="(len %s)" % q, sv=v, seq=q,
                            item=lambda j: self.mark_deepfresh(self.elem_unbox(v, "(at %s %s)" % (q, j), ety), df, ety, lst=v.term, idx=j))
            return dict(concrete=None, count="(len %s)" % q, item=lambda j: self.elem_unbox(v, "(at %s %s)" % (q, j), ety), sv=v, seq=q)
        if v.kind == 'str' and v.is_const:
            return dict(concrete=[self.const(c) for c in v.const], count=None, item=None)
        if v.kind == 'str' and v.ty and set(v.ty) <= {'estr'}:
            return dict(concrete=[], count=None, item=None)          # the empty string (typed estr) has no characters
        if v.kind == 'none':
            self.st.oblige(FALSE, 'TypeError: None is not iterable', getattr(node, 'lineno', 0))
            raise PathInfeasible()
        raise Unsupported('iteration over %s' % v.kind, node)

    def bind_target(self, target, sv):
        st = self.st
        if isinstance(target, ast.Name):
            st.env[target.id] = sv
            return
        if isinstance(target, (ast.Tuple, ast.List)):
            if sv.kind == 'val':
                sv = self.narrow(sv)
            if sv.kind not in ('tuple', 'list'):
                raise Unsupported('unpacking %s' % sv.kind, target)
            n = len(target.elts)
            if sv.elems is not None:
                if len(sv.elems) != n:
                    st.oblige(FALSE, 'ValueError: unpack arity', getattr(target, 'lineno', 0))
                    raise PathInfeasible()
                for t, e in zip(target.elts, sv.elems):
                    self.bind_target(t, e)
                return
            q = self.seq_of(sv)
            st.oblige(mk_eq("(len %s)" % q, int_lit(n)), 'unpack arity', getattr(target, 'lineno', 0))
            for i, t in enumerate(target.elts):
                self.bind_target(t, self.seq_at(sv, self.const(i), check=False))
            return
        raise Unsupported('assignment target %s' % type(target).__name__, target)


def _split_field(field):
    """'arg.default' -> ('arg', [('attr','default')]); 'a[0]' -> index"""
    first = ''
    i = 0
    while i < len(field) and field[i] not in '.[':
        first += field[i]
        i += 1
    rest = []
    while i < len(field):
        if field[i] == '.':
            j = i + 1
            name = ''
            while j < len(field) and field[j] not in '.[':
                name += field[j]
                j += 1
            rest.append(('attr', name))
            i = j
        else:
            j = field.index(']', i)
            rest.append(('index', field[i + 1:j]))
            i = j + 1
    return first, rest
