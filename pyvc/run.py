"""Discharge obligations with the solver portfolio; vacuity checks; summaries."""
import hashlib
import os
import time
from concurrent.futures import ThreadPoolExecutor

from . import smt
from .vc import smt_text
from .inst import variants


class ObResult:
    def __init__(self, func, path_idx, ob, verdict, solver, t, output, text):
        self.func = func
        self.path_idx = path_idx
        self.ob = ob
        self.verdict = verdict      # 'unsat' (discharged) | 'sat' | 'unknown'
        self.solver = solver
        self.time = t
        self.output = output
        self.text = text

    @property
    def name(self):
        h = hashlib.sha1((self.ob.note + '|' + str(self.ob.lineno)).encode()).hexdigest()[:6]
        return '%s:L%s:%s:%s' % (self.func, self.ob.lineno, self.ob.kind, h)


def discharge(fresults, timeout=20, workers=8, order=('z3', 'cvc5')):
    """fresults: list of FunctionResult. returns (list of ObResult, list of path feasibility info)"""
    jobs = []
    cache = {}
    for fr in fresults:
        for pi, p in enumerate(fr.paths):
            for ob in p.obligations:
                text = smt_text(p.decls, ob.assumptions, ob.goal)
                jobs.append((fr.key, pi, ob, text))
    out = [None] * len(jobs)

    def work(i):
        key, pi, ob, text = jobs[i]
        h = hashlib.sha1(text.encode()).hexdigest()
        if h in cache:
            r = cache[h]
        else:
            r = smt.solve_text(text, timeout, order, alt_text=variants(text))
            cache[h] = r
        return i, ObResult(key, pi, ob, r.verdict, r.solver, r.time, r.output, text)

    with ThreadPoolExecutor(max_workers=workers) as ex:
        for i, r in ex.map(work, range(len(jobs))):
            out[i] = r
    return out


def feasibility(fresults, timeout=10, workers=16):
    """vacuity guard: is each path's final path condition satisfiable?"""
    jobs = []
    for fr in fresults:
        for pi, p in enumerate(fr.paths):
            jobs.append((fr, pi, p, smt_text(p.decls, p.pc, None)))

    def work(j):
        fr, pi, p, text = j
        r = smt.solve_text(text, timeout, ('z3', 'cvc5'))
        p.feasible = r.verdict      # 'sat' feasible, 'unsat' dead, 'unknown'
        return r

    with ThreadPoolExecutor(max_workers=workers) as ex:
        list(ex.map(work, jobs))
