"""Declaration API used by the sidecar contract / spec modules."""
import ast
import inspect

from .vc import Contract, SpecFn

CONTRACTS = {}
SPECS = {}
SPEC_NATIVE = {}
SPEC_CONSTS = {}


def contract(key, **kw):
    CONTRACTS[key] = Contract(key, **kw)
    return CONTRACTS[key]


def tree_reads():
    """every attribute of the parse / instantiated tree nodes, and the list heap: `reads='tree'`"""
    from contracts.schema import TREE_SCHEMA
    skip = ('MatlabWrapper', 'PybindWrapper', 'XMLDocParser')
    return tuple(sorted({a for c, fields in TREE_SCHEMA.items() if c not in skip for a in fields}) + ['SEQ'])


def spec(rec=False, ret='any', reads=(), fuel=1):
    """decorator: a pure specification function, executable natively and translated by pyvc"""
    if reads == 'tree':
        reads = tree_reads()

    def deco(fn):
        src = inspect.getsource(fn)
        import textwrap
        tree = ast.parse(textwrap.dedent(src))
        fd = tree.body[0]
        fd.decorator_list = []
        SPECS[fn.__name__] = SpecFn(fn.__name__, fd, rec=rec, ret=ret, reads=reads, fuel=fuel)
        SPEC_NATIVE[fn.__name__] = fn
        for k, v in fn.__globals__.items():
            if k.isupper() and isinstance(v, (str, int, tuple)) and not k.startswith('_'):
                SPEC_CONSTS[k] = v
        return fn
    return deco


def implies(a, b):
    return (not a) or b
