"""Proof runner: verifies a list of functions against their contracts, in parallel worker processes,
and classifies every obligation against the committed baseline (DESIGN.md section 6)."""
import hashlib
import importlib
import json
import os
import sys
import time
import traceback
from concurrent.futures import ProcessPoolExecutor, ThreadPoolExecutor

ROOT = os.path.dirname(os.path.dirname(os.path.abspath(__file__)))


def ob_name(func, ob, def_line):
    rel = (ob.lineno - def_line) if ob.lineno and ob.kind in ('safety', 'requires', 'invariant', 'raises') else 0
    note = ob.note
    return '%s|%s|L%+d|%s' % (func, ob.kind, rel, note)


def _solve(text, quick_t, full_t):
    from . import smt
    if text.rstrip().endswith('(assert (not true))\n(check-sat)'):
        return smt.Result('unsat', 'syntactic', 0.0, 'goal simplified to true by the term layer')
    from .inst import variants
    vs = variants(text)
    al = [v for v in vs if v[0] == '+align']
    r = smt.solve_text(text, quick_t, ('z3', 'cvc5'), alt_text=al or None)
    if r.verdict in ('unsat', 'sat', 'error'):
        return r
    r2 = smt.solve_text(text, full_t, ('z3', 'cvc5'), alt_text=vs)
    r2.time += r.time
    return r2


def verify_one(args):
    """worker: generate and discharge all obligations of one function; returns a JSON-able dict"""
    (key, modules, schema_name, inv_name, hook_guards, quick_t, full_t, threads, keep_dir) = args
    sys.path.insert(0, ROOT)
    t0 = time.time()
    out = dict(key=key, obligations=[], unsupported=None, paths=0, dead_paths=0, lib=[], inlined=[], called=[],
               wf_used=[], gen_s=0, sha=None, path=None, error=None)
    try:
        from .extract import Repo
        from .vc import Engine, smt_text
        from . import api
        for m in modules:
            importlib.import_module(m)
        import contracts.schema as sch
        schema = getattr(sch, schema_name)
        invs = getattr(sch, inv_name) if inv_name else None
        repo = Repo()
        for m in modules:
            mod = sys.modules[m]
            for lf in getattr(mod, 'LEMMA_FILES', []):
                repo.add_lemma_file(os.path.join(ROOT, lf))
        if key not in repo.functions:
            out['unsupported'] = 'function %s not found in the repository' % key
            return out
        fi = repo.functions[key]
        out['sha'] = fi.sha
        out['path'] = fi.path
        import ast as _ast
        out['loops'] = sum(isinstance(n, (_ast.For, _ast.While)) for n in _ast.walk(fi.node))
        out['assumed'] = bool(api.CONTRACTS[key].assumed)
        e = Engine(repo, schema, api.CONTRACTS, api.SPECS, invs)
        e.hook_guards = list(hook_guards)
        fr = e.verify_function(key)
        out['gen_s'] = round(time.time() - t0, 2)
        out['paths'] = len(fr.paths)
        if fr.unsupported:
            out['unsupported'] = fr.unsupported
        jobs = {}
        lib, inl, called, wf = set(), set(), set(), set()
        for pi, p in enumerate(fr.paths):
            lib |= p.lib
            inl |= p.inlined
            called |= p.called
            wf |= getattr(p, 'wf_used', set())
            for ob in p.obligations:
                text = smt_text(p.decls, ob.assumptions, ob.goal)
                h = hashlib.sha1(text.encode()).hexdigest()
                name = ob_name(key, ob, fi.node.lineno)
                jobs.setdefault(h, dict(text=text, names=set(), trace=p.trace, goal=ob.goal))['names'].add(name)
        # vacuity guard: a path whose final path condition is unsatisfiable discharges everything on it for no reason.
        # Dead paths are counted (the baseline remembers how many there were); a function with no live path is not proved.
        from . import smt

        def fwork(pi):
            p = fr.paths[pi]
            r = smt.solve_text(smt_text(p.decls, p.pc, None), 1, ('z3',))
            return pi, r.verdict
        fv = {}
        with ThreadPoolExecutor(max_workers=threads) as ex:
            for pi, v in ex.map(fwork, range(len(fr.paths))):
                fv[pi] = v
        out['dead_paths'] = sum(1 for v in fv.values() if v == 'unsat')
        out['live_paths'] = sum(1 for v in fv.values() if v == 'sat')
        out['dead_list'] = [' '.join(str(x) for x in fr.paths[pi].decisions) for pi, v in sorted(fv.items()) if v == 'unsat'][:40]
        if fr.paths and out['dead_paths'] == len(fr.paths) and not out['unsupported']:
            out['unsupported'] = ('vacuity guard: every path of the function is infeasible under the assumptions of its contract and of the '
                                  'engine (contradictory requires, invariant or library model): nothing is proved')
        out['lib'] = sorted(lib)
        out['inlined'] = sorted(inl)
        out['called'] = sorted(called)
        out['called_assumed'] = {c: (api.CONTRACTS[c].note or 'assumed') for c in called if c in api.CONTRACTS and api.CONTRACTS[c].assumed}
        out['called_conditional'] = {c: list(api.CONTRACTS[c].under) for c in called if c in api.CONTRACTS and api.CONTRACTS[c].under}
        out['wf_used'] = sorted(wf)

        def work(h):
            j = jobs[h]
            r = _solve(j['text'], quick_t, full_t)
            return h, r

        results = {}
        with ThreadPoolExecutor(max_workers=threads) as ex:
            for h, r in ex.map(work, list(jobs)):
                results[h] = r
        per_name = {}
        for h, j in jobs.items():
            r = results[h]
            for name in j['names']:
                d = per_name.setdefault(name, dict(name=name, verdict='unsat', solver=set(), time=0.0, instances=0,
                                                   output='', smt=None, trace=None, vcs=[], failed_vcs=[]))
                d['instances'] += 1
                d['vcs'].append(h[:16])
                if r.verdict != 'unsat':
                    d['failed_vcs'].append(h[:16])
                d['time'] = max(d['time'], r.time)
                d['solver'].add(r.solver)
                if r.verdict != 'unsat':
                    rank = {'unsat': 0, 'unknown': 1, 'error': 3, 'sat': 2}
                    if rank[r.verdict] >= rank[d['verdict']]:
                        d['verdict'] = r.verdict
                        d['output'] = r.output[:2000]
                        d['trace'] = j['trace']
                        if keep_dir:
                            os.makedirs(keep_dir, exist_ok=True)
                            fn = os.path.join(keep_dir, hashlib.sha1(name.encode()).hexdigest()[:12] + '.smt2')
                            with open(fn, 'w') as f:
                                f.write(j['text'])
                            d['smt'] = fn
        for d in per_name.values():
            d['solver'] = sorted(d['solver'])
            d['time'] = round(d['time'], 3)
        out['obligations'] = sorted(per_name.values(), key=lambda d: d['name'])
    except Exception:
        out['error'] = traceback.format_exc()
    out['wall_s'] = round(time.time() - t0, 2)
    return out


def run_proofs(keys, modules, schema_name='TREE_SCHEMA', inv_name='TREE_INVARIANTS', hook_guards=(),
               tier='quick', keep_dir=None, procs=None):
    quick_t, full_t = (4, 40) if tier == 'quick' else (10, 150)
    ncpu = os.cpu_count() or 4
    procs = procs or max(1, min(len(keys), ncpu // 4))
    threads = max(2, ncpu // procs)
    args = [(k, list(modules), schema_name, inv_name, list(hook_guards), quick_t, full_t, threads, keep_dir) for k in keys]
    results = []
    with ProcessPoolExecutor(max_workers=procs) as ex:
        for r in ex.map(verify_one, args):
            results.append(r)
    return results


# ---------------------------------------------------------------- baseline and classification
def load_baseline(pid):
    p = os.path.join(ROOT, 'baseline', pid + '.json')
    if os.path.exists(p):
        with open(p) as f:
            return json.load(f)
    return {}


def make_baseline(results):
    b = {}
    for r in results:
        b[r['key']] = dict(sha=r['sha'], vcs=sorted({h for o in r['obligations'] if o['verdict'] == 'unsat' for h in o.get('vcs', [])}),
                           proved=(not r['unsupported'] and not r['error']
                                                 and all(o['verdict'] == 'unsat' for o in r['obligations'])),
                           discharged=sorted(o['name'] for o in r['obligations'] if o['verdict'] == 'unsat'),
                           n=len(r['obligations']), loops=r.get('loops'), dead=r.get('dead_paths', 0))
    return b


def classify(results, baseline):
    """-> dict(discharged=int, total=int, regressions=[...], undecided=[...], demoted=[...], crashes=[...])"""
    out = dict(discharged=0, total=0, regressions=[], undecided=[], demoted=[], crashes=[], proved=[], assumed=[])
    for r in results:
        b = baseline.get(r['key'], {})
        if r['error']:
            out['crashes'].append((r['key'], r['error']))
            continue
        was_proved = b.get('proved', False)
        base_names = set(b.get('discharged', []))
        if r['unsupported']:
            out['demoted'].append(dict(key=r['key'], reason=r['unsupported'], was_proved=was_proved,
                                       changed=(b.get('sha') != r['sha'])))
        elif b.get('dead') is not None and r.get('dead_paths', 0) > b['dead'] and not (
                b.get('sha') == r['sha'] and {h for o in r['obligations'] for h in o.get('vcs', [])} <= set(b.get('vcs', []))):
            # (byte-identical VCs on unchanged source: the same paths as in the baseline, the feasibility test merely answered
            # within its second this time -- not a change)
            # vacuity guard: more infeasible paths than when the baseline was taken -- what they discharge is not believed
            out['demoted'].append(dict(key=r['key'], was_proved=was_proved, changed=(b.get('sha') != r['sha']),
                                       reason='vacuity guard: %d infeasible paths, %d when the baseline was taken'
                                              % (r.get('dead_paths', 0), b['dead'])))
            for o in r['obligations']:
                out['total'] += 1
                if o['verdict'] == 'unsat':
                    out['discharged'] += 1
                else:
                    out['undecided'].append(dict(key=r['key'], name=o['name'], verdict=o['verdict'], output=o['output'], smt=o['smt'],
                                                 trace=o['trace'], changed=True))
            continue
        elif b.get('loops') is not None and r.get('loops') is not None and b['loops'] != r['loops']:
            # loop annotations are keyed by ordinal: with another number of loops they no longer describe this body.
            # An undischarged obligation then says nothing about the property (undecided, not a violation).
            out['demoted'].append(dict(key=r['key'], was_proved=was_proved, changed=True,
                                       reason='the function has %d loops, its contract annotates %d: re-annotation needed'
                                              % (r['loops'], b['loops'])))
            for o in r['obligations']:
                out['total'] += 1
                if o['verdict'] == 'unsat':
                    out['discharged'] += 1
                else:
                    out['undecided'].append(dict(key=r['key'], name=o['name'], verdict=o['verdict'], output=o['output'], smt=o['smt'],
                                                 trace=o['trace'], changed=True))
            continue
        for o in r['obligations']:
            out['total'] += 1
            if o['verdict'] == 'unsat':
                out['discharged'] += 1
                continue
            if o['verdict'] == 'error':
                out['crashes'].append((r['key'], 'solver error on %s: %s' % (o['name'], o['output'][:300])))
                continue
            entry = dict(key=r['key'], name=o['name'], verdict=o['verdict'], output=o['output'], smt=o['smt'],
                         trace=o['trace'], changed=(b.get('sha') != r['sha']))
            if o['verdict'] == 'unknown' and o.get('failed_vcs') and set(o['failed_vcs']) <= set(b.get('vcs', [])):
                # byte-identical VCs were discharged when the baseline was taken: a solver timeout, not a change
                out['discharged'] += 1
                out.setdefault('flaky', []).append(o['name'])
                continue
            if o['name'] in base_names or (was_proved and b.get('sha') != r['sha']):
                out['regressions'].append(entry)
            else:
                out['undecided'].append(entry)
        if not r['unsupported'] and all(o['verdict'] == 'unsat' for o in r['obligations']) and r['obligations']:
            (out['assumed'] if False else out['proved']).append(r['key'])
    return out
