"""M1: mechanical extraction of functions and the class table from /repo's
current working tree (re-read on every run).

Dropped by extraction (and nothing else): docstrings, comments, type
annotations, decorators other than @staticmethod/@classmethod (kept as
binding info).  Anything the symbolic executor does not support makes the
function 'out of reach' (pyvc.engine.Unsupported) -- never silently skipped.
"""
import ast
import hashlib
import os

REPO = os.environ.get('VERIF_REPO', '/repo')

SOURCE_DIRS = ['gtwrap/interface_parser', 'gtwrap/template_instantiator', 'gtwrap/matlab_wrapper',
               'gtwrap/xml_parser', 'gtwrap', 'scripts']


class FuncInfo:
    def __init__(self, key, node, path, cls, source, kind):
        self.key = key            # 'Class.method' or 'function'
        self.node = node
        self.path = path          # repo-relative
        self.cls = cls            # defining class name or None
        self.source = source
        self.kind = kind          # 'function' | 'method' | 'staticmethod' | 'classmethod'
        self.sha = hashlib.sha256(source.encode()).hexdigest()[:16]

    @property
    def params(self):
        a = self.node.args
        return [x.arg for x in a.posonlyargs + a.args]

    @property
    def defaults(self):
        a = self.node.args
        names = [x.arg for x in a.posonlyargs + a.args]
        ds = a.defaults
        return dict(zip(names[len(names) - len(ds):], ds))


class Repo:
    def __init__(self, root=None):
        self.root = root or REPO
        self.functions = {}
        self.classes = {}     # name -> dict(bases=[..], methods={name: key}, path=..., attrs=set())
        self.module_consts = {}  # (path, name) -> ast node (module-level simple assignments)
        self.class_consts = {}   # (class, name) -> ast node
        self.files = {}
        self._load()

    def _load(self):
        seen = set()
        for d in SOURCE_DIRS:
            full = os.path.join(self.root, d)
            if not os.path.isdir(full):
                continue
            for fn in sorted(os.listdir(full)):
                if not fn.endswith('.py'):
                    continue
                rel = os.path.join(d, fn)
                if rel in seen:
                    continue
                seen.add(rel)
                with open(os.path.join(self.root, rel), encoding='utf-8') as f:
                    src = f.read()
                tree = ast.parse(src)
                self.files[rel] = (src, tree)
                self._walk(tree.body, rel, src, None)

    def add_lemma_file(self, path):
        """lemma functions (bodies are `pass`): their contracts are obligations over spec functions only"""
        with open(path, encoding='utf-8') as f:
            src = f.read()
        tree = ast.parse(src)
        rel = 'verif:' + os.path.basename(path)
        self.files[rel] = (src, tree)
        self._walk([n for n in tree.body if isinstance(n, ast.FunctionDef) and n.name.startswith('lemma_')], rel, src, None)

    def _walk(self, body, rel, src, cls):
        for node in body:
            if isinstance(node, (ast.FunctionDef,)):
                kind = 'method' if cls else 'function'
                for dec in node.decorator_list:
                    if isinstance(dec, ast.Name) and dec.id in ('staticmethod', 'classmethod'):
                        kind = dec.id
                key = (cls + '.' + node.name) if cls else node.name
                if rel.startswith('scripts/'):
                    key = os.path.basename(rel)[:-3] + ':' + key
                seg = ast.get_source_segment(src, node) or ''
                if key in self.functions:
                    key = rel + '::' + key
                self.functions[key] = FuncInfo(key, node, rel, cls, seg, kind)
                if cls:
                    self.classes[cls]['methods'][node.name] = key
            elif isinstance(node, ast.ClassDef):
                name = (cls + '.' + node.name) if cls else node.name
                bases = []
                for b in node.bases:
                    if isinstance(b, ast.Attribute):
                        bases.append(b.attr)
                    elif isinstance(b, ast.Name):
                        bases.append(b.id)
                self.classes[name] = dict(bases=bases, methods={}, path=rel, short=node.name)
                self._walk(node.body, rel, src, name)
            elif isinstance(node, (ast.Assign, ast.AnnAssign)):
                tgt = node.targets[0] if isinstance(node, ast.Assign) else node.target
                if isinstance(tgt, ast.Name) and node.value is not None:
                    if cls:
                        self.class_consts[(cls, tgt.id)] = node.value
                    else:
                        self.module_consts[(rel, tgt.id)] = node.value

    # ------------------------------------------------------------ class table
    def resolve_class(self, name):
        """map a possibly dotted source name (parser.Method, instantiator.InstantiatedClass,
        Template.TypenameAndInstantiations) to a class-table key"""
        if name in self.classes:
            return name
        last = name.split('.')[-1]
        cands = [k for k, v in self.classes.items() if v['short'] == last]
        if len(cands) == 1:
            return cands[0]
        if len(cands) > 1:
            for c in cands:
                if c.endswith(name):
                    return c
        return None

    def mro(self, cname):
        cache = self.__dict__.setdefault('_mro_cache', {})
        if cname in cache:
            return list(cache[cname])
        out = []

        def go(c):
            if c in out or c not in self.classes:
                return
            out.append(c)
            for b in self.classes[c]['bases']:
                bb = self.resolve_class(b)
                if bb:
                    go(bb)
        go(cname)
        cache[cname] = tuple(out)
        return out

    def family(self, cname):
        """representative of the connected component of cname in the inheritance graph: objects of different
        families never coincide (an object has one class)"""
        fam = getattr(self, '_family', None)
        if fam is None:
            parent = {c: c for c in self.classes}

            def find(x):
                while parent[x] != x:
                    parent[x] = parent[parent[x]]
                    x = parent[x]
                return x
            for c in self.classes:
                for b in self.classes[c]['bases']:
                    bb = self.resolve_class(b)
                    if bb and bb in parent:
                        ra, rb = find(c), find(bb)
                        if ra != rb:
                            parent[max(ra, rb)] = min(ra, rb)
            fam = {c: find(c) for c in self.classes}
            self._family = fam
        return fam.get(cname, cname)

    def subclasses(self, cname):
        return [c for c in self.classes if cname in self.mro(c)]

    def find_method(self, cname, mname):
        for c in self.mro(cname):
            k = self.classes[c]['methods'].get(mname)
            if k:
                return k
        return None

    def find_class_const(self, cname, name):
        for c in self.mro(cname):
            if (c, name) in self.class_consts:
                return self.class_consts[(c, name)]
        return None

    def class_id(self, cname):
        return sorted(self.classes).index(cname) + 1
