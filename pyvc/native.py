"""Native (CPython) evaluation of the dual-use contracts: run-time monitors on the real functions.

Used (a) as the bounded stand-in for functions out of the VC generator's reach, (b) as the CPython
cross-check of the engine (a contract the engine proves must also hold on every real call), and (c) to
replay counterexamples.  Quantifiers without bounds are evaluated over a finite window (stated).
"""
import ast
import functools
import importlib
import inspect
import sys

WINDOW = range(-2, 64)


def _forall(*a):
    f = a[-1]
    if len(a) == 3:
        return all(f(k) for k in range(a[0], a[1]))
    n = len(inspect.signature(f).parameters)
    if n == 1:
        return all(f(k) for k in WINDOW)
    return all(f(j, k) for j in WINDOW for k in WINDOW)


def _exists(*a):
    f = a[-1]
    if len(a) == 3:
        return any(f(k) for k in range(a[0], a[1]))
    return any(f(k) for k in WINDOW)


def base_env():
    import gtwrap.interface_parser as ip
    import gtwrap.template_instantiator as ti
    env = {}
    for mod in (ip, ti):
        for k in dir(mod):
            v = getattr(mod, k)
            if inspect.isclass(v):
                env[k] = v
    from gtwrap.interface_parser.type import Typename, Type, TemplatedType
    env.update(Typename=Typename, Type=Type, TemplatedType=TemplatedType)
    env.update(same=lambda a, b: a is b or (type(a) in (str, int, bool, type(None)) and a == b),
               int_str=str, py_repr=repr, forall=_forall, exists=_exists,
               implies=lambda a, b: (not a) or b, seq=list, is_fresh=lambda x: True,
               dom=lambda d: _DictView(d, True), vals=lambda d: _DictView(d, False))
    return env


class _DictView:
    def __init__(self, d, dom):
        self.d = dict(d)
        self.dom = dom

    def __getitem__(self, k):
        return (k in self.d) if self.dom else self.d.get(k)

    def set(self, k, v):
        n = _DictView(self.d, self.dom)
        n.d[k] = True if self.dom else v
        if self.dom and not v:
            n.d.pop(k, None)
        return n

    def __eq__(self, o):
        return self.d.keys() == o.d.keys() if self.dom else self.d == o.d


def spec_env(modules=()):
    """namespace in which all registered spec functions are natively callable"""
    from . import api
    for m in modules:
        importlib.import_module(m)
    env = base_env()
    env.update(api.SPEC_CONSTS)
    for name, sf in api.SPECS.items():
        src = ast.unparse(sf.node)
        code = compile(src, '<spec %s>' % name, 'exec')
        exec(code, env)
    for name in api.SPECS:
        env[name] = _seqify(env[name])
    return env


def _seqify(f):
    @functools.wraps(f)
    def g(*a, **k):
        r = f(*a, **k)
        return list(r) if isinstance(r, tuple) else r
    return g


class Monitor:
    """wrap real functions with their result_is / ensures clauses (those that do not use old() or ghost state)"""

    def __init__(self, env, contracts):
        self.env = env
        self.contracts = contracts
        self.calls = {}
        self.failures = []
        self.patched = []

    def wrap(self, owner, attr, key):
        con = self.contracts[key]
        real = inspect.getattr_static(owner, attr)
        kind = 'static' if isinstance(real, staticmethod) else 'class' if isinstance(real, classmethod) else 'plain'
        fn = real.__func__ if kind != 'plain' else real
        sig = inspect.signature(fn)
        mon = self

        @functools.wraps(fn)
        def wrapper(*a, **k):
            res = fn(*a, **k)
            try:
                ba = sig.bind(*a, **k)
                ba.apply_defaults()
                loc = dict(ba.arguments)
                loc['result'] = res
                mon.calls[key] = mon.calls.get(key, 0) + 1
                pre_ok = True
                for r in con.requires:
                    try:
                        if not eval(r, mon.env, loc):
                            pre_ok = False
                    except Exception:
                        pre_ok = False
                if pre_ok:
                    clauses = []
                    if con.result_is is not None:
                        clauses.append('result == (%s)' % con.result_is)
                    clauses += [e for e in con.ensures if 'old(' not in e]
                    for c in clauses:
                        try:
                            ok = eval(c, mon.env, loc)
                        except Exception as e:      # a clause the native evaluator cannot run is skipped, not failed
                            continue
                        if not ok:
                            exp = None
                            if c.startswith('result == (') and con.result_is:
                                try:
                                    exp = eval(con.result_is, mon.env, loc)
                                except Exception:
                                    pass
                            mon.failures.append(dict(function=key, clause=c, result=repr(res)[:600], expected=repr(exp)[:600],
                                                     args={n: repr(v)[:200] for n, v in ba.arguments.items()}))
            except Exception:
                pass
            return res
        new = staticmethod(wrapper) if kind == 'static' else classmethod(wrapper) if kind == 'class' else wrapper
        setattr(owner, attr, new)
        self.patched.append((owner, attr, real))

    def restore(self):
        for owner, attr, real in reversed(self.patched):
            setattr(owner, attr, real)
        self.patched = []
