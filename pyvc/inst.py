"""Generator-side skolemisation of universally quantified goals and instantiation of universally
quantified assumptions at the skolem constants (and their neighbours).  Sound: only adds instances
of assumptions that are already present, and replaces the goal by an equisatisfiable negation."""
import re
from . import smt

_Q = re.compile(r'^\(forall \(((?:\([^\s()]+ Int\)\s*)+)\) ')


def _parse_forall(term):
    m = _Q.match(term)
    if not m or not term.endswith(')'):
        return None
    vars_ = re.findall(r'\(([^\s()]+) Int\)', m.group(1))
    body = term[m.end():-1].strip()
    if len(smt.split_top(body)) != 1:
        return None
    return vars_, body


def _subst(body, var, term):
    return re.sub(r'(?<![\w!.$@#])' + re.escape(var) + r'(?![\w!.$@#])', lambda m: term, body)


def _strip_pattern(body):
    if body.startswith('(! '):
        parts = smt.split_top(body[3:-1])
        return parts[0]
    return body


def index_terms(goal, limit=12):
    """Int-sorted terms used as sequence / array indices in the goal: instantiation candidates"""
    out = []

    def walk(sx):
        if isinstance(sx, str) or not sx:
            return
        head = sx[0]
        if head in ('at', 'select') and len(sx) == 3:
            idx = sx[2]
            if isinstance(idx, list) and idx and idx[0] == 'VI' and len(idx) == 2:
                idx = idx[1]
            t = smt._unparse(idx)
            if not t.startswith('"') and not t.startswith('(V') and t not in ('VNone',) and \
                    not re.fullmatch(r'[a-z_]*j(![0-9]+)?|k![0-9]+|v![0-9]+', t):
                if t not in out:
                    out.append(t)
        if head in ('forall', 'exists'):
            return
        for c in sx[1:]:
            walk(c)
    try:
        walk(smt.parse_sexpr(goal)[0])
    except Exception:
        return []
    return out[:limit]


def help_text(text, extra_terms=()):
    lines = text.split('\n')
    goal_i = None
    for i, l in enumerate(lines):
        if l.startswith('(assert (not '):
            goal_i = i
    if goal_i is None:
        return text
    goal = lines[goal_i][len('(assert (not '):-2]
    skolems = []
    decls = []
    pf = _parse_forall(goal)
    k = 0
    while pf is not None:
        vars_, body = pf
        for v in vars_:
            sk = 'sk!%d_%s' % (k, re.sub(r'[^\w]', '_', v))
            k += 1
            decls.append('(declare-const %s Int)' % sk)
            body = _subst(body, v, sk)
            skolems.append(sk)
        goal = _strip_pattern(body)
        pf = _parse_forall(goal)
    cands = list(extra_terms)
    for s in skolems:
        cands += [s, '(+ %s 1)' % s, '(- %s 1)' % s]
    for t in index_terms(goal):
        if t not in cands:
            cands.append(t)
    extra = []
    if cands:
        for i, l in enumerate(lines):
            if i == goal_i or not l.startswith('(assert (forall '):
                continue
            a = l[len('(assert '):-1]
            pf = _parse_forall(a)
            if pf is None:
                continue
            vars_, body = pf
            if len(vars_) != 1:
                continue
            body = _strip_pattern(body)
            for c in cands:
                extra.append('(assert %s)' % _subst(body, vars_[0], c))
    out = lines[:goal_i] + decls + extra + ['(assert (not %s))' % goal] + lines[goal_i + 1:]
    return '\n'.join(out)


def variants(text):
    """equi-provable variants of one VC: unsat of any of them proves the obligation"""
    out = [('', text)]
    h = help_text(text)
    if h != text:
        out.append(('+inst', h))
        g = '\n'.join(l for l in h.split('\n') if not l.startswith('(assert (forall'))
        if g != h:
            out.append(('+ground', g))
    return out
