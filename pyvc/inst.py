"""Generator-side skolemisation of universally quantified goals and instantiation of universally
quantified assumptions at the skolem constants (and their neighbours).  Sound: only adds instances
of assumptions that are already present, and replaces the goal by an equisatisfiable negation."""
import re
from . import smt

_Q = re.compile(r'^\(forall \(((?:\([^\s()]+ Int\)\s*)+)\) ')


def _parse_forall(term):
    m = _Q.match(term)
    if not m or not term.endswith(')'):
        return None
    vars_ = re.findall(r'\(([^\s()]+) Int\)', m.group(1))
    body = term[m.end():-1].strip()
    if len(smt.split_top(body)) != 1:
        return None
    return vars_, body


def _subst(body, var, term):
    return re.sub(r'(?<![\w!.$@#])' + re.escape(var) + r'(?![\w!.$@#])', lambda m: term, body)


def _strip_pattern(body):
    if body.startswith('(! '):
        parts = smt.split_top(body[3:-1])
        return parts[0]
    return body


def index_terms(goal, limit=12):
    """Int-sorted terms used as sequence / array indices in the goal: instantiation candidates"""
    out = []

    def walk(sx):
        if isinstance(sx, str) or not sx:
            return
        head = sx[0]
        if head in ('at', 'select') and len(sx) == 3:
            idx = sx[2]
            if isinstance(idx, list) and idx and idx[0] == 'VI' and len(idx) == 2:
                idx = idx[1]
            t = smt._unparse(idx)
            if not t.startswith('"') and not t.startswith('(V') and t not in ('VNone',) and \
                    not re.fullmatch(r'[a-z_]*j(![0-9]+)?|k![0-9]+|v![0-9]+', t):
                if t not in out:
                    out.append(t)
        if head in ('forall', 'exists'):
            return
        for c in sx[1:]:
            walk(c)
    try:
        walk(smt.parse_sexpr(goal)[0])
    except Exception:
        return []
    return out[:limit]


def help_text(text, extra_terms=()):
    lines = text.split('\n')
    goal_i = None
    for i, l in enumerate(lines):
        if l.startswith('(assert (not '):
            goal_i = i
    if goal_i is None:
        return text
    goal = lines[goal_i][len('(assert (not '):-2]
    skolems = []
    decls = []
    pf = _parse_forall(goal)
    k = 0
    while pf is not None:
        vars_, body = pf
        for v in vars_:
            sk = 'sk!%d_%s' % (k, re.sub(r'[^\w]', '_', v))
            k += 1
            decls.append('(declare-const %s Int)' % sk)
            body = _subst(body, v, sk)
            skolems.append(sk)
        goal = _strip_pattern(body)
        pf = _parse_forall(goal)
    cands = list(extra_terms)
    for s in skolems:
        cands += [s, '(+ %s 1)' % s, '(- %s 1)' % s]
    for t in index_terms(goal):
        if t not in cands:
            cands.append(t)
    extra = []
    if cands:
        for i, l in enumerate(lines):
            if i == goal_i or not l.startswith('(assert (forall '):
                continue
            a = l[len('(assert '):-1]
            pf = _parse_forall(a)
            if pf is None:
                continue
            vars_, body = pf
            if len(vars_) != 1:
                continue
            body = _strip_pattern(body)
            for c in cands:
                extra.append('(assert %s)' % _subst(body, vars_[0], c))
    out = lines[:goal_i] + decls + extra + ['(assert (not %s))' % goal] + lines[goal_i + 1:]
    return '\n'.join(out)


_DEF = re.compile(r'^\(assert \(= (sh_[^\s()]+) (.*)\)\)$')


def _flat(t):
    if t.startswith('(str.++ '):
        out = []
        for p in smt.split_top(t[8:-1]):
            out += _flat(p)
        return out
    return [t]


def _merge_lits(ps):
    out = []
    for p in ps:
        if p == '""':
            continue
        if smt.is_str_lit(p) and out and smt.is_str_lit(out[-1]):
            out[-1] = smt.str_lit(smt.str_lit_value(out[-1]) + smt.str_lit_value(p))
        else:
            out.append(p)
    return out


def _cancel(pa, pb):
    """cancel common syntactic prefix and suffix pieces (literals are compared character-wise)"""
    pa, pb = list(pa), list(pb)
    for rev in (False, True):
        while pa and pb:
            x, y = (pa[-1], pb[-1]) if rev else (pa[0], pb[0])
            if x == y:
                if rev:
                    pa.pop(); pb.pop()
                else:
                    pa.pop(0); pb.pop(0)
            elif smt.is_str_lit(x) and smt.is_str_lit(y):
                vx, vy = smt.str_lit_value(x), smt.str_lit_value(y)
                if rev:
                    vx, vy = vx[::-1], vy[::-1]
                n = 0
                while n < len(vx) and n < len(vy) and vx[n] == vy[n]:
                    n += 1
                if n == 0:
                    break
                rx, ry = vx[n:], vy[n:]
                if rev:
                    rx, ry = rx[::-1], ry[::-1]
                    pa.pop(); pb.pop()
                    if rx:
                        pa.append(smt.str_lit(rx))
                    if ry:
                        pb.append(smt.str_lit(ry))
                else:
                    pa.pop(0); pb.pop(0)
                    if rx:
                        pa.insert(0, smt.str_lit(rx))
                    if ry:
                        pb.insert(0, smt.str_lit(ry))
            else:
                break
    return pa, pb


def _cat(ps):
    if not ps:
        return '""'
    return ps[0] if len(ps) == 1 else '(str.++ %s)' % ' '.join(ps)


def _align(a, b, defs, budget=None):
    """a formula F with F => (a = b): common prefix / suffix pieces are cancelled, definitions are unfolded
    lazily at the first mismatch, conditionals are split"""
    budget = budget if budget is not None else [40]
    pa, pb = _merge_lits(_flat(a)), _merge_lits(_flat(b))
    while True:
        pa, pb = _cancel(pa, pb)
        if not pa and not pb:
            return 'true'
        if budget[0] <= 0:
            break
        # unfold a definition at the first / last mismatching piece
        done = False
        cands = []
        for side, other in ((pb, pa), (pa, pb)):
            for pos in (0, -1):
                if side and side[pos] in defs and side[pos] not in other:
                    t = side[pos]
                    rank = 0 if t.startswith('(sf_') else 1 if t.startswith('sh_') else 2
                    cands.append((rank, side is pa, pos, side))
        def other_is_ite(c):
            o = pb if c[3] is pa else pa
            return bool(o) and o[c[2]].startswith('(ite ')
        has_ite = any(sd and sd[ps].startswith('(ite ') for sd in (pa, pb) for ps in (0, -1))
        cands = [c for c in cands if not other_is_ite(c) and not (c[0] == 2 and has_ite)]
        if cands:
            cands.sort(key=lambda c: (c[0], c[1]))
            _, _, pos, side = cands[0]
            budget[0] -= 1
            exp = _merge_lits(_flat(defs[side[pos]]))
            if pos == 0:
                side[0:1] = exp
            else:
                side[-1:] = exp
            side[:] = _merge_lits(side)
            done = True
        if done:
            continue
        # split a conditional piece at the mismatch
        for side, other in ((pa, pb), (pb, pa)):
            for pos in (0, -1):
                if side and side[pos].startswith('(ite '):
                    xs = smt.split_top(side[pos][5:-1])
                    if len(xs) == 3:
                        budget[0] -= 2
                        rest_a = side[1:] if pos == 0 else side[:-1]
                        t1 = (_flat(xs[1]) + rest_a) if pos == 0 else (rest_a + _flat(xs[1]))
                        t2 = (_flat(xs[2]) + rest_a) if pos == 0 else (rest_a + _flat(xs[2]))
                        return '(and (=> %s %s) (=> (not %s) %s))' % (
                            xs[0], _align(_cat(_merge_lits(t1)), _cat(other), defs, budget),
                            xs[0], _align(_cat(_merge_lits(t2)), _cat(other), defs, budget))
        break
    return '(= %s %s)' % (_cat(pa), _cat(pb))


def align_text(text):
    """variant with the goal `A = B` (possibly under =>) replaced by a piecewise-aligned, stronger goal"""
    lines = text.split('\n')
    gi = None
    for i, l in enumerate(lines):
        if l.startswith('(assert (not '):
            gi = i
    if gi is None:
        return None
    goal = lines[gi][len('(assert (not '):-2]
    defs = {}
    for l in lines:
        if not l.startswith('(assert (= '):
            continue
        ps = smt.split_top(l[len('(assert (= '):-2])
        if len(ps) != 2:
            continue
        lhs, rhs = ps
        if lhs.startswith('sh_') or lhs.startswith('(sf_'):
            defs.setdefault(lhs, rhs)
        elif not lhs.startswith('(') and not lhs.startswith('"') and (rhs.startswith('(sf_') or rhs.startswith('(str.++')):
            defs.setdefault(lhs, rhs)

    def rewrite(g):
        if g.startswith('(=> '):
            ps = smt.split_top(g[4:-1])
            if len(ps) == 2:
                r = rewrite(ps[1])
                return None if r is None else '(=> %s %s)' % (ps[0], r)
        if g.startswith('(= '):
            ps = smt.split_top(g[3:-1])
            if len(ps) == 2 and any(p.startswith('(str.++') or p in defs or smt.is_str_lit(p) for p in ps):
                return _align(ps[0], ps[1], defs)
        return None
    try:
        ng = rewrite(goal)
    except Exception:
        return None
    if ng is None or ng == goal:
        return None
    return '\n'.join(lines[:gi] + ['(assert (not %s))' % ng] + lines[gi + 1:])


def variants(text):
    """equi-provable variants of one VC: unsat of any of them proves the obligation"""
    out = [('', text)]
    al = align_text(text)
    if al is not None:
        out.append(('+align', al))
    h = help_text(text)
    if h != text:
        out.append(('+inst', h))
        g = '\n'.join(l for l in h.split('\n') if not l.startswith('(assert (forall'))
        if g != h:
            out.append(('+ground', g))
    return out
