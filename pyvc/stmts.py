"""Statement execution, loops cut by invariants."""
import ast

from . import smt
from .smt import (mk_and, mk_or, mk_not, mk_eq, mk_ite, mk_concat, mk_add, mk_sub, mk_lt, mk_le,
                  mk_select, mk_store, mk_implies, str_lit, int_lit, TRUE, FALSE)
from .types import SV, NOCONST, parse_ty, atom_kind, ANY, T_STR, T_INT, T_BOOL, T_NONE
from .values import Unsupported, PathInfeasible, is_tag, RaisedExc
from .calls import Return


class Break(Exception):
    pass


class Continue(Exception):
    pass


class Raised(Exception):
    def __init__(self, exc, lineno):
        self.exc = exc
        self.lineno = lineno


class PathEnd(Exception):
    def __init__(self, why):
        self.why = why


def assigned_names(stmts):
    out = set()
    for s in stmts:
        for n in ast.walk(s):
            if isinstance(n, ast.Name) and isinstance(n.ctx, ast.Store):
                out.add(n.id)
            elif isinstance(n, ast.AugAssign) and isinstance(n.target, ast.Name):
                out.add(n.target.id)
    return out


def mutated_names(stmts):
    """names whose list value is mutated in place by a method call or element store"""
    out = set()
    for s in stmts:
        for n in ast.walk(s):
            if isinstance(n, ast.Call) and isinstance(n.func, ast.Attribute) and \
                    n.func.attr in ('append', 'extend', 'pop', 'remove', 'insert', 'clear') and \
                    isinstance(n.func.value, ast.Name):
                out.add(n.func.value.id)
            if isinstance(n, ast.Subscript) and isinstance(n.ctx, ast.Store) and isinstance(n.value, ast.Name):
                out.add(n.value.id)
    return out


def stored_attrs(stmts):
    out = set()
    for s in stmts:
        for n in ast.walk(s):
            if isinstance(n, ast.Attribute) and isinstance(n.ctx, ast.Store):
                out.add(n.attr)
            if isinstance(n, ast.AugAssign) and isinstance(n.target, ast.Attribute):
                out.add(n.target.attr)
    return out


class StmtOps:
    def exec_block(self, stmts):
        for s in stmts:
            self.exec_stmt(s)

    def exec_stmt(self, node):
        m = getattr(self, 'ex_' + type(node).__name__, None)
        if m is None:
            raise Unsupported('statement %s' % type(node).__name__, node)
        try:
            m(node)
        except Unsupported as e:
            if e.node is None or not hasattr(e.node, 'lineno'):
                e.node = node
            raise

    def ex_Pass(self, node):
        pass

    def ex_Expr(self, node):
        if isinstance(node.value, ast.Constant):
            return      # docstring
        self.ev(node.value)

    def ex_FunctionDef(self, node):
        self.st.env[node.name] = SV('func', extra={'def': node, 'env': self.st.env})

    def ex_Return(self, node):
        raise Return(self.ev(node.value) if node.value is not None else self.const(None))

    def ex_Break(self, node):
        raise Break()

    def ex_Continue(self, node):
        raise Continue()

    def ex_Raise(self, node):
        exc = node.exc
        name = None
        if isinstance(exc, ast.Call):
            exc = exc.func
        if isinstance(exc, ast.Name):
            name = exc.id
        elif isinstance(exc, ast.Attribute):
            name = exc.attr
        raise Raised(name or 'Exception', node.lineno)

    def ex_Assert(self, node):
        st = self.st
        c, rt, rf = self.cond(node.test)
        if c == TRUE:
            return
        if self.allowed_raise('AssertionError'):
            d = st.decide(2, 'assert@%d' % node.lineno)
            if d == 0:
                st.assume(c)
                self.apply_refine(rt)
                return
            st.assume(mk_not(c))
            raise Raised('AssertionError', node.lineno)
        st.oblige(c, 'assert holds', node.lineno)
        st.assume(c)
        self.apply_refine(rt)

    def allowed_raise(self, name):
        return name in self.cur_raises

    def ex_Assign(self, node):
        v = self.ev(node.value)
        if len(node.targets) == 1 and isinstance(node.targets[0], ast.Name):
            v = self.share(v, node.targets[0].id)
        for t in node.targets:
            self.assign(t, v, node)

    def ex_AnnAssign(self, node):
        if node.value is not None:
            self.assign(node.target, self.ev(node.value), node)

    def assign(self, t, v, node):
        st = self.st
        if isinstance(t, ast.Name):
            st.env[t.id] = v
        elif isinstance(t, (ast.Tuple, ast.List)):
            self.bind_target(t, v)
        elif isinstance(t, ast.Attribute):
            obj = self.ev(t.value)
            if obj.kind == 'val':
                obj = self.narrow(obj)
            if obj.kind != 'ref':
                st.oblige(FALSE, 'attribute store on %s' % obj.kind, node.lineno)
                raise PathInfeasible()
            self.write_attr(obj, t.attr, v)
            self.stored.add(t.attr)
        elif isinstance(t, ast.Subscript):
            base = self.ev(t.value)
            if base.kind == 'val':
                base = self.narrow(base)
            idx = self.ev(t.slice)
            if isinstance(node, ast.Assign) and isinstance(node.value, ast.Subscript) and \
                    ast.dump(node.value.value) == ast.dump(t.value) and ast.dump(node.value.slice) == ast.dump(t.slice):
                return      # x[i] = x[i]: no effect (the read already carried the bounds obligation)
            if base.kind == 'dict':
                if base.owned:
                    for n_, (k, _) in enumerate(base.extra['items']):
                        c = self.py_eq(idx, k)
                        if c == TRUE:
                            base.extra['items'][n_] = (k, v)
                            return
                        if c != FALSE:
                            raise Unsupported('owned dict store with undecided key', node)
                    base.extra['items'].append((idx, v))
                    return
                if base.is_const:
                    raise Unsupported('store into constant dict', node)
                self.dict_write(base, idx, v)
            elif base.kind == 'list':
                if idx.kind != 'int':
                    raise Unsupported('list store index', node)
                if base.owned and base.elems is not None and idx.is_const:
                    if not -len(base.elems) <= idx.const < len(base.elems):
                        st.oblige(FALSE, 'list assignment index out of range', node.lineno)
                        raise PathInfeasible()
                    base.elems[idx.const] = v
                else:
                    q = self.seq_of(base)
                    n = "(len %s)" % q
                    self.index_ok(mk_and(mk_le('0', idx.term), mk_lt(idx.term, n)), 'list store index in range', node.lineno)
                    nq = st.decls.const('qst', 'Int')
                    st.assume(mk_eq("(len %s)" % nq, n), 'def')
                    st.assume(mk_eq("(at %s %s)" % (nq, idx.term), self.box(v)), 'def')
                    st.assume("(forall ((j Int)) (! (=> (and (<= 0 j) (< j %s) (not (= j %s))) (= (at %s j) (at %s j))) :pattern ((at %s j))))"
                              % (n, idx.term, nq, q, nq), 'def')
                    self.list_set_seq(base, nq)
            else:
                raise Unsupported('subscript store on %s' % base.kind, node)
        else:
            raise Unsupported('assignment target', node)

    def ex_AugAssign(self, node):
        st = self.st
        t = node.target
        rhs = self.ev(node.value)
        if isinstance(t, ast.Name):
            cur = self.ev(ast.Name(id=t.id, ctx=ast.Load()))
            if cur.kind == 'list' and isinstance(node.op, ast.Add):
                if rhs.kind == 'val':
                    rhs = self.narrow(rhs)
                self.list_extend(cur, rhs, node)
                return
            st.env[t.id] = self.binop(node.op, cur, rhs, node)
        elif isinstance(t, ast.Attribute):
            obj = self.ev(t.value)
            if obj.kind == 'val':
                obj = self.narrow(obj)
            cur = self.getattr(obj, t.attr, node)
            if cur.kind == 'list' and isinstance(node.op, ast.Add):
                self.list_extend(cur, rhs, node)
                return
            self.write_attr(obj, t.attr, self.binop(node.op, cur, rhs, node))
            self.stored.add(t.attr)
        elif isinstance(t, ast.Subscript):
            base = self.ev(t.value)
            idx = self.ev(t.slice)
            cur = self.subscript(base, t.slice, node)
            if cur.kind == 'val':
                cur = self.narrow(cur)
            if cur.kind == 'list' and isinstance(node.op, ast.Add):
                self.list_extend(cur, rhs, node)
                return
            def simple(e):
                return isinstance(e, (ast.Name, ast.Constant)) or (isinstance(e, ast.Attribute) and simple(e.value))
            if simple(t.value) and simple(t.slice):
                # d[k] op= v  ==  d[k] = d[k] op v   (base and index are side-effect free names / attributes)
                load = ast.Subscript(value=t.value, slice=t.slice, ctx=ast.Load())
                new = ast.Assign(targets=[ast.Subscript(value=t.value, slice=t.slice, ctx=ast.Store())],
                                 value=ast.BinOp(left=load, op=node.op, right=node.value))
                ast.copy_location(new, node)
                ast.fix_missing_locations(new)
                return self.ex_Assign(new)
            raise Unsupported('augmented subscript assignment', node)
        else:
            raise Unsupported('augmented assignment target', node)

    def ex_If(self, node):
        st = self.st
        c, rt, rf = self.cond(node.test)
        if c == TRUE:
            self.apply_refine(rt)
            return self.exec_block(node.body)
        if c == FALSE:
            self.apply_refine(rf)
            return self.exec_block(node.orelse)
        d = st.decide(2, 'if@%d' % node.lineno)
        if d == 0:
            st.assume(c)
            self.apply_refine(rt)
            self.exec_block(node.body)
        else:
            st.assume(mk_not(c))
            self.apply_refine(rf)
            self.exec_block(node.orelse)

    def ex_With(self, node):
        """`with open(...) as f:` -- file contents are unknown strings; writes are effects (M7), no value"""
        st = self.st
        for item in node.items:
            ce = item.context_expr
            if not (isinstance(ce, ast.Call) and isinstance(ce.func, ast.Name) and ce.func.id == 'open'):
                raise Unsupported('with statement other than open()', node)
            for a in ce.args:
                self.ev(a)
            if item.optional_vars is not None:
                if not isinstance(item.optional_vars, ast.Name):
                    raise Unsupported('with target', node)
                st.env[item.optional_vars.id] = SV('file', extra={})
        self.lib_assumptions.add('open()/read(): file contents are arbitrary strings; write() has no value (effects are C14)')
        self.exec_block(node.body)

    def ex_Try(self, node):
        raise Unsupported('try statement', node)

    # ------------------------------------------------------------ loops
    def loop_annotation(self, node):
        fi = self.ctx_stack[-1] if self.ctx_stack else None
        if fi is None:
            return None, None
        con = self.contracts.get(fi.key)
        ordn = loop_ordinal(fi.node, node)
        if con is None:
            return None, ordn
        return con.loops.get(ordn), ordn

    def ex_For(self, node):
        st = self.st
        if node.orelse:
            raise Unsupported('for-else', node)
        it = self.iter_spec(node.iter, node)
        if it['concrete'] is not None:
            for item in it['concrete']:
                self.bind_target(node.target, item)
                try:
                    self.exec_block(node.body)
                except Continue:
                    continue
                except Break:
                    break
            return
        ann, ordn = self.loop_annotation(node)
        if ann is None:
            raise Unsupported('loop #%s over a symbolic sequence needs an invariant' % ordn, node)
        self.cut_loop(node, ann, ordn, count=it['count'], item=it['item'], guard=None)

    def ex_While(self, node):
        ann, ordn = self.loop_annotation(node)
        if ann is None:
            raise Unsupported('while loop #%s needs an invariant' % ordn, node)
        self.cut_loop(node, ann, ordn, count=None, item=None, guard=node.test)

    def fresh_like(self, name, sv, tyhint=None):
        st = self.st
        if tyhint is not None:
            ty = parse_ty(tyhint)
            if len(ty) == 1 and atom_kind(next(iter(ty))) == 'list':
                q = st.decls.const(name + '_q', 'Int')
                st.assume(mk_le('0', "(len %s)" % q), 'wf')
                sv2 = SV('list', seq=q, owned=True, ty=ty)
                self.assume_elem_types(q, self.elem_ty(sv2))
                return sv2
            t = st.decls.const(name, 'Val')
            return self.unbox(t, ty)
        k = sv.kind
        if k == 'int':
            return self.mk_int(st.decls.const(name, 'Int'))
        if k == 'str':
            return self.mk_str(st.decls.const(name, 'String'))
        if k == 'bool':
            return self.mk_bool(st.decls.const(name, 'Bool'))
        if k == 'ref':
            r = st.decls.const(name, 'Int')
            st.assume(self.cls_in(r, self.ref_classes(sv.ty)), 'wf')
            if st.alloc is not None:
                st.assume(mk_lt(r, st.alloc), 'wf')
            return SV('ref', r, sv.ty)
        if k == 'val':
            t = st.decls.const(name, 'Val')
            return self.unbox(t, sv.ty)
        if k == 'list' and sv.owned:
            q = st.decls.const(name + '_q', 'Int')
            st.assume(mk_le('0', "(len %s)" % q), 'wf')
            return SV('list', seq=q, owned=True, ty=sv.ty)
        if k == 'arr':
            ks, vs = sv.extra
            return SV('arr', st.decls.const(name, '(Array %s %s)' % (ks, vs)), sv.ty, extra=sv.extra)
        if k in ('none', 'global', 'func', 'tuple', 'list', 'dict'):
            if k == 'none':
                raise Unsupported('loop-carried variable %s starts as None: give its type in the loop annotation' % name)
            return sv
        raise Unsupported('havoc of %s' % k)

    def havoc_heap(self, attrs):
        st = self.st
        for a in attrs:
            if a == 'SEQ':
                st.seqh = st.decls.const('SEQ', '(Array Int Int)')
                st.bump('SEQ')
            elif a == 'DICT':
                st.ddom = st.decls.const('DDOM', '(Array Int (Array Val Bool))')
                st.dval = st.decls.const('DVAL', '(Array Int (Array Val Val))')
                st.bump('DICT')
            elif a == 'alloc':
                old = st.alloc
                st.alloc = st.decls.const('alloc', 'Int')
                if old is not None:
                    st.assume(mk_le(old, st.alloc), 'wf')
            elif a.startswith('ghost:'):
                g = a[6:]
                st.ghost[g] = self.fresh_like('g_' + g, st.ghost[g])
            else:
                st.heap_arr(a)          # makes sure the entry (base) array exists: the function's frame check compares against it
                st.heap[a] = st.decls.const('H_' + a, '(Array Int Val)')
                st.bump(a)

    def check_loop_frame(self, node, ordn, items, whole, head, head_env, entry_alloc, famwhole=None):
        """what an iteration changes on objects that existed before the loop must be covered by the loop's havoc set
        (its `modifies` annotation and the attributes it stores syntactically): otherwise the cut would keep stale facts"""
        st = self.st
        what = 'loop #%d frame' % ordn
        objs = {}
        lists, dicts = [], []
        saved = st.env
        st.env = dict(head_env)
        live = self.st
        try:
            for it in items:
                if it.startswith(('ghost:', 'heap:', 'fresh:', 'new:')) or it == 'alloc':
                    continue
                if it.startswith('list(') or it.startswith('dict('):
                    tmp = head.snapshot()
                    tmp.pc, tmp.obligations = live.pc, live.obligations
                    tmp.decisions, tmp.dpos, tmp.dlog, tmp.trace = live.decisions, live.dpos, live.dlog, live.trace
                    tmp.env = dict(head_env)
                    self.st = tmp
                    try:
                        v = self.spec_eval(it[5:-1])
                    finally:
                        live.dpos = tmp.dpos
                        self.st = live
                    (lists if it.startswith('list(') else dicts).append(v.term)
                    continue
                n = ast.parse(it, mode='eval').body
                tmp = head.snapshot()
                tmp.pc, tmp.obligations = live.pc, live.obligations
                tmp.decisions, tmp.dpos, tmp.dlog, tmp.trace = live.decisions, live.dpos, live.dlog, live.trace
                tmp.env = dict(head_env)
                self.st = tmp
                try:
                    o = self.spec_eval(ast.unparse(n.value))
                finally:
                    live.dpos = tmp.dpos
                    self.st = live
                objs.setdefault(n.attr, []).append(o.term)
        finally:
            st.env = saved
        newattrs = {it[4:] for it in items if it.startswith('new:')}
        for attr, arr in st.heap.items():
            old = head.heap.get(attr, st.decls.base_heap.get(attr))
            if old is None or old == arr or attr in whole:
                continue
            if attr in newattrs:
                goal = "(forall ((r Int)) %s)" % mk_implies(mk_lt('r', self.alloc0), mk_eq(mk_select(arr, 'r'), mk_select(old, 'r')))
                st.oblige(goal, '%s: attribute %s changes only on objects allocated by this function' % (what, attr), node.lineno, kind='invariant')
                continue
            excl = [mk_not(mk_eq('r', o)) for o in objs.get(attr, [])]
            excl += [mk_not(self.cls_in('r', self.family_classes(f))) for f in (famwhole or {}).get(attr, [])]
            goal = "(forall ((r Int)) %s)" % mk_implies(mk_and(mk_lt('r', entry_alloc), *excl),
                                                       mk_eq(mk_select(arr, 'r'), mk_select(old, 'r')))
            st.oblige(goal, '%s: attribute %s of objects that existed before the loop changes only where the loop says so' % (what, attr),
                      node.lineno, kind='invariant')
        head_seqh = head.seqh if head.seqh is not None else getattr(st.decls, 'base_seq', None)
        if st.seqh is not None and head_seqh is not None and st.seqh != head_seqh:
            excl = [mk_not(mk_eq('r', l)) for l in lists]
            bound = self.alloc0 if 'SEQ' in newattrs else entry_alloc
            goal = "(forall ((r Int)) %s)" % mk_implies(mk_and(mk_lt('r', bound), *excl),
                                                       mk_eq(mk_select(st.seqh, 'r'), mk_select(head_seqh, 'r')))
            st.oblige(goal, '%s: lists that existed before the loop change only where the loop says so' % what, node.lineno, kind='invariant')
        head_ddom = head.ddom if head.ddom is not None else getattr(st.decls, 'base_ddom', None)
        head_dval = head.dval if head.dval is not None else getattr(st.decls, 'base_dval', None)
        if st.ddom is not None and head_ddom is not None and (st.ddom != head_ddom or st.dval != head_dval):
            excl = [mk_not(mk_eq('r', d)) for d in dicts]
            goal = "(forall ((r Int)) %s)" % mk_implies(
                mk_and(mk_lt('r', entry_alloc), *excl),
                mk_and(mk_eq(mk_select(st.ddom, 'r'), mk_select(head_ddom, 'r')),
                       mk_eq(mk_select(st.dval, 'r'), mk_select(head_dval, 'r'))))
            st.oblige(goal, '%s: dicts that existed before the loop change only where the loop says so' % what, node.lineno, kind='invariant')
        listed = {it[6:].partition(':')[0] for it in items if it.startswith('ghost:')}
        for g, v in st.ghost.items():
            hv = head.ghost.get(g)
            if hv is not None and getattr(hv, 'term', None) != getattr(v, 'term', None) and g not in listed:
                raise Unsupported('loop #%d changes ghost %s, which its annotation does not list in modifies' % (ordn, g), node)

    def eval_invs(self, ann, i_term, what, node, assume):
        st = self.st
        self.spec_env['_i'] = self.mk_int(i_term)
        for text in ann.get('inv', []):
            t = self.spec_eval_bool(text)
            if assume:
                st.assume(t, 'inv')
            else:
                st.oblige(t, '%s: %s' % (what, text), node.lineno, kind='invariant')
        self.spec_env.pop('_i', None)

    def cut_loop(self, node, ann, ordn, count, item, guard):
        st = self.st
        body = node.body
        # 1. invariant holds on entry
        self.eval_invs(ann, '0', 'loop #%d invariant on entry' % ordn, node, assume=False)
        # 2. havoc
        mods = (assigned_names(body) | mutated_names(body)) & set(st.env)
        if guard is None:
            mods -= assigned_names([ast.Expr(node.target)]) if False else set()
        types = ann.get('types', {})
        entry_env = dict(st.env)
        for name in sorted(mods):
            st.env[name] = self.fresh_like(name, st.env[name], types.get(name))
        items = list(ann.get('modifies', []))
        covered = set()
        if any(' if ' in it for it in items):
            raise Unsupported('guarded modifies items are for contracts, not for loop annotations', node)
        for it in items:
            if not (it.startswith('dict(') or it.startswith('list(') or it.startswith('ghost:') or it.startswith('heap:')
                    or it.startswith('fresh:') or it.startswith('new:') or it == 'alloc'):
                covered.add(it.rsplit('.', 1)[-1])
        entry_alloc = st.alloc
        famwhole = {}
        for it in items:
            if it.startswith('heap:') and '@' in it:
                a, f = it[5:].split('@', 1)
                famwhole.setdefault(a, []).append(f)
                covered.add(a)          # the body's syntactic stores of this attribute are stores on that family (frame-checked)
            elif it.startswith('new:') and it != 'new:SEQ':
                covered.add(it[4:])     # stores of this attribute hit only objects allocated by this function (frame-checked)
        whole = set(sorted(stored_attrs(body) - covered)) | {it[5:] for it in items if it.startswith('heap:') and '@' not in it}
        self.havoc_modifies(items, st.env)
        self.havoc_heap(sorted(stored_attrs(body) - covered))
        self.havoc_heap(['alloc'])
        head = st.snapshot()
        head_env = dict(st.env)
        i = st.decls.const('i', 'Int')
        st.assume(mk_le('0', i), 'loop')
        if count is not None:
            st.assume(mk_le(i, count), 'loop')
        self.loop_entry_stack.append(entry_env)
        try:
            self.eval_invs(ann, i, 'inv', node, assume=True)
        finally:
            self.loop_entry_stack.pop()
        d = st.decide(2, 'loop%d@%d' % (ordn, node.lineno))
        if d == 0:
            # an arbitrary iteration
            if count is not None:
                st.assume(mk_lt(i, count), 'loop')
                self.bind_target(node.target, item(i))
            else:
                c, rt, rf = self.cond(guard)
                st.assume(c, 'loop')
                self.apply_refine(rt)
            self.spec_env['_i'] = self.mk_int(i)
            try:
                self.exec_block(body)
            except Continue:
                pass
            except Break:
                self.spec_env.pop('_i', None)
                return
            self.spec_env.pop('_i', None)
            self.eval_invs(ann, mk_add(i, '1'), 'loop #%d invariant preserved' % ordn, node, assume=False)
            self.check_loop_frame(node, ordn, items, whole, head, head_env, entry_alloc, famwhole)
            raise PathEnd('loop-back')
        # exit
        for name, ty in ann.get('defines', {}).items():
            # variables first assigned in the body and read after the loop
            if count is not None:
                st.oblige(mk_lt('0', count), 'loop #%d runs at least once (it defines %s)' % (ordn, name), node.lineno)
            st.env[name] = self.fresh_typed('ld_' + name, ty)
        if count is not None:
            st.assume(mk_eq(i, count), 'loop')
        else:
            c, rt, rf = self.cond(guard)
            st.assume(mk_not(c), 'loop')
            self.apply_refine(rf)


def _noop():
    pass


def loop_ordinal(fn, node):
    k = [0]
    found = [None]

    def go(n):
        for c in ast.iter_child_nodes(n):
            if isinstance(c, (ast.For, ast.While)):
                if c is node:
                    found[0] = k[0]
                k[0] += 1
            go(c)
    go(fn)
    return found[0]
