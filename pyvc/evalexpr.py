"""Expression evaluation of the symbolic executor."""
import ast
import string
import textwrap

from . import smt
from .smt import (mk_and, mk_or, mk_not, mk_eq, mk_ite, mk_concat, mk_add, mk_sub, mk_lt, mk_le,
                  mk_select, mk_store, mk_implies, str_lit, int_lit, TRUE, FALSE)
from .types import SV, NOCONST, parse_ty, atom_kind, ANY, T_STR, T_INT, T_BOOL, T_NONE
from .values import Unsupported, PathInfeasible, is_tag, TAG

_FORMATTER = string.Formatter()


def simple_expr(node):
    """pure, total, obligation-free expressions that may be merged with ite"""
    if isinstance(node, ast.Constant):
        return True
    if isinstance(node, ast.Name):
        return True
    if isinstance(node, ast.Attribute):
        return simple_expr(node.value)
    if isinstance(node, ast.BinOp) and isinstance(node.op, ast.Add):
        return simple_expr(node.left) and simple_expr(node.right)
    if isinstance(node, ast.Compare) and len(node.ops) == 1 and isinstance(node.ops[0], (ast.Eq, ast.NotEq, ast.Is, ast.IsNot)):
        return simple_expr(node.left) and simple_expr(node.comparators[0])
    return False


class ExprOps:
    # ------------------------------------------------------------ entry
    def ev(self, node):
        m = getattr(self, 'ev_' + type(node).__name__, None)
        if m is None:
            raise Unsupported('expression %s' % type(node).__name__, node)
        try:
            return m(node)
        except Unsupported as e:
            if e.node is None:
                e.node = node
            raise

    def ev_Constant(self, node):
        if node.value is Ellipsis:
            raise Unsupported('Ellipsis', node)
        return self.const(node.value)

    def ev_Name(self, node):
        st = self.st
        if node.id in st.env:
            return st.env[node.id]
        if node.id in self.spec_env:
            return self.spec_env[node.id]
        return SV('global', const=node.id)

    def ev_Tuple(self, node):
        return SV('tuple', elems=self.ev_elts(node.elts), ty=parse_ty('tuple'))

    def ev_List(self, node):
        elems = self.ev_elts(node.elts)
        tys = set()
        for e in elems:
            tys |= set(e.ty or ANY)
        ety = frozenset(tys) if elems and 'any' not in tys else (ANY if elems else frozenset())
        return SV('list', elems=elems, owned=True, ty=frozenset([('list', ety)]))

    def ev_elts(self, elts):
        out = []
        for e in elts:
            if isinstance(e, ast.Starred):
                v = self.ev(e.value)
                if v.kind == 'val':
                    v = self.narrow(v)
                if v.elems is None:
                    raise Unsupported('starred element of symbolic length', e)
                out.extend(v.elems)
            else:
                out.append(self.ev(e))
        return out

    def ev_Dict(self, node):
        items = [(self.ev(k), self.ev(v)) for k, v in zip(node.keys, node.values)]
        if items and all(k.is_const and v.is_const for k, v in items):
            return SV('dict', const={k.const: v.const for k, v in items}, extra={'items': items},
                      ty=parse_ty('dict[any,any]'))
        return SV('dict', owned=True, extra={'items': items}, ty=parse_ty('dict[any,any]'))

    def new_dict(self, ty='dict[any,any]'):
        st = self.st
        r = self.new_ref()
        dom, val = self.dict_heaps()
        st.ddom = mk_store(dom, r, "((as const (Array Val Bool)) false)")
        st.bump('DICT')
        return SV('dict', r, parse_ty(ty))

    def ev_JoinedStr(self, node):
        parts = []
        for v in node.values:
            if isinstance(v, ast.Constant):
                parts.append(str_lit(v.value))
            else:
                if v.format_spec is not None:
                    fs = self.ev(v.format_spec)
                    if not (fs.is_const and fs.const == ''):
                        raise Unsupported('format spec', node)
                x = self.ev(v.value)
                if v.conversion == ord('r'):
                    parts.append(self.to_repr(x, node).term)
                else:
                    parts.append(self.to_str(x, node).term)
        return self.mk_str(mk_concat(parts))

    def ev_FormattedValue(self, node):
        return self.to_str(self.ev(node.value), node)

    def to_repr(self, sv, node=None):
        if sv.kind in ('int', 'none', 'bool'):
            return self.to_str(sv, node)
        if sv.is_const and sv.kind == 'str':
            return self.const(repr(sv.const))
        if sv.kind == 'ref':
            return self.call_method(sv, '__repr__', [], {}, node)
        if sv.kind == 'val':
            return self.to_repr(self.narrow(sv), node)
        if sv.kind == 'str':
            self.st.decls.fun('py_repr', ['String'], 'String')
            self.lib_assumptions.add('repr(str) is an uninterpreted function (its escaping is the subject of C17)')
            return self.mk_str("(py_repr %s)" % sv.term)
        raise Unsupported('repr() of %s' % sv.kind, node)

    def ev_IfExp(self, node):
        st = self.st
        c, rt, rf = self.cond(node.test)
        if c == TRUE:
            return self.ev(node.body)
        if c == FALSE:
            return self.ev(node.orelse)
        if simple_expr(node.body) and simple_expr(node.orelse) and not rt and not rf:
            a, b = self.ev(node.body), self.ev(node.orelse)
            if a.kind == b.kind and a.kind in ('str', 'int', 'bool'):
                return SV(a.kind, mk_ite(c, a.term, b.term), a.ty)
            if a.kind in ('str', 'int', 'bool', 'none', 'ref', 'val') and b.kind in ('str', 'int', 'bool', 'none', 'ref', 'val'):
                ty = frozenset(a.ty | b.ty)
                return SV('val', mk_ite(c, self.box(a), self.box(b)), ty)
        # speculative evaluation of both arms: merge by ite when neither needs obligations, case splits or effects
        ok_a, a = self.speculate(node.body, rt)
        if ok_a:
            ok_b, b = self.speculate(node.orelse, rf)
            if ok_b:
                try:
                    return self.merge_ite(c, a, b)
                except Unsupported:
                    pass
        d = st.decide(2, 'ifexp@%d' % node.lineno)
        if d == 0:
            st.assume(c)
            self.apply_refine(rt)
            return self.ev(node.body)
        st.assume(mk_not(c))
        self.apply_refine(rf)
        return self.ev(node.orelse)

    def speculate(self, node, refine):
        st = self.st
        snap = (len(st.pc), len(st.obligations), st.ver, st.dpos, len(st.decisions), len(st.dlog), len(st.trace),
                dict(st.heap), dict(st.heapver), st.seqh, st.ddom, st.dval, st.alloc, dict(st.ghost), dict(st.env))
        ok = True
        val = None
        try:
            self.apply_refine(refine)
            val = self.ev(node)
        except (Unsupported, PathInfeasible, Exception):
            ok = False
        if ok and (len(st.obligations) != snap[1] or st.ver != snap[2] or st.dpos != snap[3]
                   or any(k not in ('wf', 'def', 'lib') for _, k in st.pc[snap[0]:])
                   or st.alloc != snap[12] or val.kind in ('list', 'dict', 'func', 'global')):
            ok = False
        st.env = snap[14]
        if not ok:
            del st.pc[snap[0]:]
            del st.obligations[snap[1]:]
            st.ver, st.dpos = snap[2], snap[3]
            del st.decisions[snap[4]:]
            del st.dlog[snap[5]:]
            del st.trace[snap[6]:]
            st.heap, st.heapver, st.seqh, st.ddom, st.dval, st.alloc, st.ghost = snap[7], snap[8], snap[9], snap[10], snap[11], snap[12], snap[13]
        return ok, val

    def ev_BoolOp(self, node):
        # value semantics with short circuit
        st = self.st
        is_and = isinstance(node.op, ast.And)
        if self.spec_mode:
            ts = [self.cond(v)[0] for v in node.values]
            return self.mk_bool(mk_and(*ts) if is_and else mk_or(*ts))
        cur = None
        for i, v in enumerate(node.values):
            cur = self.ev(v)
            if i == len(node.values) - 1:
                return cur
            t = self.truthy(cur)
            if t == TRUE:
                if is_and:
                    continue
                return cur
            if t == FALSE:
                if is_and:
                    return cur
                continue
            d = st.decide(2, 'boolop@%d' % node.lineno)
            if d == 0:
                st.assume(t)
                if not is_and:
                    return cur
            else:
                st.assume(mk_not(t))
                if is_and:
                    return cur
        return cur

    def ev_UnaryOp(self, node):
        if isinstance(node.op, ast.Not):
            c, _, _ = self.cond(node.operand)
            return self.mk_bool(mk_not(c))
        v = self.ev(node.operand)
        if isinstance(node.op, ast.USub) and v.kind == 'int':
            if v.is_const:
                return self.const(-v.const)
            return self.mk_int("(- %s)" % v.term)
        raise Unsupported('unary op', node)

    def ev_BinOp(self, node):
        a, b = self.ev(node.left), self.ev(node.right)
        return self.binop(node.op, a, b, node)

    def binop(self, op, a, b, node):
        if a.kind == 'val':
            a = self.narrow(a, want=b.kind if b.kind in ('str', 'int') else None)
        if b.kind == 'val':
            b = self.narrow(b, want=a.kind if a.kind in ('str', 'int') else None)
        if isinstance(op, ast.Add):
            if a.kind == 'str' and b.kind == 'str':
                return self.mk_str(mk_concat([a.term, b.term]))
            if a.kind == 'int' and b.kind == 'int':
                return self.mk_int(mk_add(a.term, b.term))
            if a.kind == b.kind and a.kind in ('list', 'tuple'):
                return self.seq_concat(a, b)
            if self.spec_mode and a.kind in ('list', 'tuple') and b.kind in ('list', 'tuple'):
                # specifications talk about sequences: list/tuple distinction is immaterial
                a2 = SV('list', elems=a.elems, seq=(a.seq if a.elems is None else None) if a.kind == 'tuple' or a.owned else None,
                        owned=True, ty=a.ty) if (a.kind == 'tuple' or a.owned) else SV('list', seq=self.seq_of(a), owned=True, ty=a.ty)
                b2 = SV('list', elems=b.elems, seq=(b.seq if b.elems is None else None) if b.kind == 'tuple' or b.owned else None,
                        owned=True, ty=b.ty) if (b.kind == 'tuple' or b.owned) else SV('list', seq=self.seq_of(b), owned=True, ty=b.ty)
                return self.seq_concat(a2, b2)
            self.fail('TypeError', '+ on %s and %s' % (a.kind, b.kind), getattr(node, 'lineno', 0))
        if isinstance(op, ast.Sub) and a.kind == 'int' and b.kind == 'int':
            return self.mk_int(mk_sub(a.term, b.term))
        if isinstance(op, ast.Mult):
            if a.kind == 'int' and b.kind == 'int':
                if a.is_const and b.is_const:
                    return self.const(a.const * b.const)
                return self.mk_int("(* %s %s)" % (a.term, b.term))
            if a.kind == 'str' and b.is_const and b.kind == 'int' and a.is_const:
                return self.const(a.const * b.const)
            if b.kind == 'str' and a.is_const and a.kind == 'int' and b.is_const:
                return self.const(a.const * b.const)
        raise Unsupported('binary op %s on %s/%s' % (type(op).__name__, a.kind, b.kind), node)

    def seq_concat(self, a, b):
        kind = a.kind
        if a.elems is not None and b.elems is not None:
            return SV(kind, elems=a.elems + b.elems, owned=(kind == 'list'), ty=frozenset(a.ty | b.ty))
        qa, qb = self.seq_of(a), self.seq_of(b)
        q = self.s_cat(qa, qb)
        return SV(kind, ty=frozenset((a.ty or ANY) | (b.ty or ANY)), seq=q, owned=(kind == 'list'))

    # sequence constructors as uninterpreted functions with axioms per application
    def s_cat(self, qa, qb):
        st = self.st
        st.decls.fun('s_cat', ['Int', 'Int'], 'Int')
        q = "(s_cat %s %s)" % (qa, qb)
        if q not in self.seq_axioms_done:
            self.seq_axioms_done.add(q)
            la, lb = "(len %s)" % qa, "(len %s)" % qb
            st.assume(mk_eq("(len %s)" % q, mk_add(la, lb)), 'def')
            st.assume("(forall ((j Int)) (! (=> (and (<= 0 j) (< j %s)) (= (at %s j) (at %s j))) :pattern ((at %s j))))" % (la, q, qa, q), 'def')
            st.assume("(forall ((j Int)) (! (=> (and (<= %s j) (< j (+ %s %s))) (= (at %s j) (at %s (- j %s)))) :pattern ((at %s j))))" % (la, la, lb, q, qb, la, q), 'def')
        return q

    def s_app(self, qa, v):
        st = self.st
        st.decls.fun('s_app', ['Int', 'Val'], 'Int')
        q = "(s_app %s %s)" % (qa, v)
        if q not in self.seq_axioms_done:
            self.seq_axioms_done.add(q)
            la = "(len %s)" % qa
            st.assume(mk_eq("(len %s)" % q, mk_add(la, '1')), 'def')
            st.assume(mk_eq("(at %s %s)" % (q, la), v), 'def')
            st.assume("(forall ((j Int)) (! (=> (and (<= 0 j) (< j %s)) (= (at %s j) (at %s j))) :pattern ((at %s j))))" % (la, q, qa, q), 'def')
        return q

    def s_slice(self, qa, lo, hi):
        """lo, hi already normalised to 0 <= lo <= hi <= len"""
        st = self.st
        st.decls.fun('s_slice', ['Int', 'Int', 'Int'], 'Int')
        q = "(s_slice %s %s %s)" % (qa, lo, hi)
        if q not in self.seq_axioms_done:
            self.seq_axioms_done.add(q)
            st.assume(mk_eq("(len %s)" % q, mk_sub(hi, lo)), 'def')
            st.assume("(forall ((j Int)) (! (=> (and (<= 0 j) (< j (- %s %s))) (= (at %s j) (at %s (+ %s j)))) :pattern ((at %s j))))" % (hi, lo, q, qa, lo, q), 'def')
        return q

    # ------------------------------------------------------------ conditions
    def cond(self, node):
        """-> (Bool term, refinements if true, refinements if false)"""
        st = self.st
        if isinstance(node, ast.UnaryOp) and isinstance(node.op, ast.Not):
            c, rt, rf = self.cond(node.operand)
            return mk_not(c), rf, rt
        if isinstance(node, ast.BoolOp):
            is_and = isinstance(node.op, ast.And)
            acc = TRUE if is_and else FALSE
            refs = []
            undo = []          # names narrowed only for the evaluation of the later operands: restored before returning

            npush = [0]

            def restore():
                for nm, prev in reversed(undo):
                    st.env[nm] = prev
                for _ in range(npush[0]):
                    st.pop_guard()
                npush[0] = 0
            for i, v in enumerate(node.values):
                c, rt, rf = self.cond(v)
                if is_and:
                    if c == FALSE:
                        restore()
                        return FALSE, [], []
                    rest = node.values[i + 1:]
                    if c != TRUE and rest and not self.spec_mode and not all(simple_expr(x) for x in rest):
                        # short circuit by forking
                        d = st.decide(2, 'and@%d' % node.lineno)
                        if d == 1:
                            restore()
                            st.assume(mk_not(mk_and(acc, c)))
                            return FALSE, [], []
                        st.assume(c)
                        self.apply_refine(rt)
                        c = TRUE
                    else:
                        for nm, sv in rt:
                            if nm in st.env:
                                undo.append((nm, st.env[nm]))
                        self.apply_refine_tmp(rt)
                    refs += rt
                    acc = mk_and(acc, c)
                else:
                    if c == TRUE:
                        restore()
                        return TRUE, [], []
                    rest = node.values[i + 1:]
                    if c != FALSE and rest and not self.spec_mode and not all(simple_expr(x) for x in rest):
                        d = st.decide(2, 'or@%d' % node.lineno)
                        if d == 1:
                            restore()
                            st.assume(mk_or(acc, c))
                            return TRUE, [], []
                        st.assume(mk_not(c))
                        self.apply_refine(rf)
                        c = FALSE
                    refs += rf
                    acc = mk_or(acc, c)
            restore()
            if is_and:
                return acc, refs, []
            return acc, [], refs
        if isinstance(node, ast.Compare) and len(node.ops) == 1:
            op = node.ops[0]
            if isinstance(op, (ast.Is, ast.IsNot)) and isinstance(node.comparators[0], ast.Constant) \
                    and node.comparators[0].value is None:
                v = self.ev(node.left)
                c = self.is_none(v)
                rt, rf = [], []
                if isinstance(node.left, ast.Name) and v.kind == 'val':
                    rt = [(node.left.id, SV('none', const=None, ty=T_NONE))]
                    rf = [(node.left.id, self.restrict(v, {atom_kind(a) for a in v.ty} - {'none'}))]
                if isinstance(op, ast.IsNot):
                    return mk_not(c), rf, rt
                return c, rt, rf
        if isinstance(node, ast.Call) and isinstance(node.func, ast.Name) and node.func.id == 'isinstance' \
                and node.func.id not in st.env:
            v = self.ev(node.args[0])
            c, narrowed, rest = self.isinstance_term(v, node.args[1])
            rt, rf = [], []
            if isinstance(node.args[0], ast.Name):
                if narrowed is not None:
                    rt = [(node.args[0].id, narrowed)]
                if rest is not None:
                    rf = [(node.args[0].id, rest)]
            return c, rt, rf
        v = self.ev(node)
        rt, rf = [], []
        if isinstance(node, ast.Name) and v.kind == 'val' and 'any' not in v.ty:
            ks = {atom_kind(a) for a in v.ty}
            drop = set()
            if 'none' in ks:
                drop.add('none')
            if 'estr' in v.ty and 'str' not in v.ty and 'nestr' not in v.ty:
                drop.add('str')             # the only string it can be is the empty one, which is falsy
                self.st.assume(mk_implies(is_tag('str', v.term), mk_eq("(vs %s)" % v.term, '""')), 'wf')
            if drop and ks - drop:
                rt = [(node.id, self.restrict(v, ks - drop))]
        return self.truthy(v), rt, rf

    def apply_refine(self, refs):
        for name, sv in refs:
            if name in self.st.env:
                self.st.env[name] = sv

    def apply_refine_tmp(self, refs):
        # refinements of an `and` chain are valid for the later operands as well
        self.apply_refine(refs)

    def is_none(self, v):
        if v.kind == 'none':
            return TRUE
        if v.kind == 'val':
            if 'any' not in v.ty and 'none' not in {atom_kind(a) for a in v.ty}:
                return FALSE
            return is_tag('none', v.term)
        return FALSE

    def class_names_of(self, node):
        """isinstance second argument -> list of class-table names or python kind names"""
        if isinstance(node, ast.Tuple):
            out = []
            for e in node.elts:
                out += self.class_names_of(e)
            return out
        if isinstance(node, ast.Name):
            nm = node.id
        elif isinstance(node, ast.Attribute):
            parts = []
            n = node
            while isinstance(n, ast.Attribute):
                parts.append(n.attr)
                n = n.value
            if isinstance(n, ast.Name):
                parts.append(n.id)
            nm = '.'.join(reversed(parts))
        else:
            raise Unsupported('isinstance class expression', node)
        if nm in ('list', 'tuple', 'str', 'int', 'bool', 'dict'):
            return ['py:' + nm]
        if nm in ('Iterable', 'Sequence'):
            return ['py:' + nm]
        if nm == 'ParseResults':
            return ['py:ParseResults']
        c = self.repo.resolve_class(nm.split('.', 1)[-1] if nm.split('.')[0] in ('parser', 'instantiator') else nm)
        if c is None:
            c = self.repo.resolve_class(nm)
        if c is None:
            raise Unsupported('isinstance with unknown class %s' % nm, node)
        return [c]

    def isinstance_term(self, v, clsnode):
        """-> (Bool term, SV narrowed if true or None, SV if false or None)"""
        names = self.class_names_of(clsnode)
        pykinds = set()
        classes = []
        for n in names:
            if n.startswith('py:'):
                k = n[3:]
                if k == 'Iterable':
                    pykinds |= {'list', 'tuple', 'str', 'dict'}
                elif k == 'Sequence':
                    pykinds |= {'list', 'tuple', 'str'}
                elif k == 'ParseResults':
                    pass
                else:
                    pykinds.add(k)
                    if k == 'int':
                        pykinds.add('bool')
            else:
                classes += self.repo.subclasses(n)
        if v.kind == 'val':
            if 'any' in v.ty:
                raise Unsupported('isinstance on any')
            yes, no = [], []
            for a in v.ty:
                k = atom_kind(a)
                if k == 'ref':
                    sub = self.ref_classes(frozenset([a]))
                    if all(c in classes for c in sub):
                        yes.append(a)
                    elif not any(c in classes for c in sub):
                        no.append(a)
                    else:
                        # mixed: split by class tag
                        return self._isinstance_mixed(v, classes)
                elif k in pykinds:
                    yes.append(a)
                else:
                    no.append(a)
            if not yes:
                return FALSE, None, None
            if not no:
                return TRUE, None, None
            t = mk_or(*[is_tag(k, v.term) for k in sorted({atom_kind(a) for a in yes})])
            ny = self.restrict(SV('val', v.term, frozenset(yes)), {atom_kind(a) for a in yes})
            nn = self.restrict(SV('val', v.term, frozenset(no)), {atom_kind(a) for a in no})
            return t, ny, nn
        if v.kind == 'ref':
            sub = self.ref_classes(v.ty)
            if all(c in classes for c in sub):
                return TRUE, None, None
            if not any(c in classes for c in sub):
                return FALSE, None, None
            inn = [c for c in sub if c in classes]
            out = [c for c in sub if c not in classes]
            t = self.cls_in(v.term, inn)
            return (t, SV('ref', v.term, frozenset(('ref', c, True) for c in inn), extra=v.extra),
                    SV('ref', v.term, frozenset(('ref', c, True) for c in out), extra=v.extra))
        if v.kind in ('list', 'tuple', 'str', 'int', 'bool', 'dict'):
            return (TRUE if v.kind in pykinds else FALSE), None, None
        if v.kind == 'none':
            return FALSE, None, None
        raise Unsupported('isinstance on %s' % v.kind)

    def _isinstance_mixed(self, v, classes):
        t = v.term
        refpart = "(vr %s)" % t
        sub = self.ref_classes(frozenset(a for a in v.ty if atom_kind(a) == 'ref'))
        inn = [c for c in sub if c in classes]
        return mk_and(is_tag('ref', t), self.cls_in(refpart, inn)), None, None

    def ev_Compare(self, node):
        if len(node.ops) == 1:
            op = node.ops[0]
            if isinstance(op, (ast.Is, ast.IsNot)):
                c, _, _ = self.cond(node)
                if isinstance(node.comparators[0], ast.Constant) and node.comparators[0].value is None:
                    return self.mk_bool(c)
                a, b = self.ev(node.left), self.ev(node.comparators[0])
                t = self.identical(a, b)
                return self.mk_bool(t if isinstance(op, ast.Is) else mk_not(t))
        left = self.ev(node.left)
        res = TRUE
        for op, rn in zip(node.ops, node.comparators):
            right = self.ev(rn)
            res = mk_and(res, self.compare(op, left, right, node))
            left = right
        return self.mk_bool(res)

    def identical(self, a, b):
        if a.kind == 'ref' and b.kind == 'ref':
            return mk_eq(a.term, b.term)
        if a.kind == 'none' and b.kind == 'none':
            return TRUE
        if a.kind in ('ref', 'val') and b.kind in ('ref', 'val'):
            return mk_eq(self.box(a), self.box(b))
        if a.kind != b.kind and 'val' not in (a.kind, b.kind):
            return FALSE
        raise Unsupported('identity of %s/%s' % (a.kind, b.kind))

    def compare(self, op, a, b, node):
        if isinstance(op, ast.Eq):
            return self.py_eq(a, b)
        if isinstance(op, ast.NotEq):
            return mk_not(self.py_eq(a, b))
        if isinstance(op, (ast.In, ast.NotIn)):
            t = self.contains(b, a, node)
            return t if isinstance(op, ast.In) else mk_not(t)
        if a.kind == 'val':
            a = self.narrow(a)
        if b.kind == 'val':
            b = self.narrow(b)
        if a.kind == 'int' and b.kind == 'int':
            if isinstance(op, ast.Lt):
                return mk_lt(a.term, b.term)
            if isinstance(op, ast.LtE):
                return mk_le(a.term, b.term)
            if isinstance(op, ast.Gt):
                return mk_lt(b.term, a.term)
            if isinstance(op, ast.GtE):
                return mk_le(b.term, a.term)
        raise Unsupported('comparison %s on %s/%s' % (type(op).__name__, a.kind, b.kind), node)

    def contains(self, cont, x, node):
        st = self.st
        if cont.kind == 'val':
            cont = self.narrow(cont)
        if cont.kind in ('list', 'tuple'):
            if cont.elems is not None:
                return mk_or(*[self.py_eq(x, e) for e in cont.elems])
            q = self.seq_of(cont)
            ety = self.elem_ty(cont)
            ks = {atom_kind(a) for a in ety}
            if 'any' in ks or ks & {'list', 'tuple', 'dict'}:
                raise Unsupported('membership in sequence of containers/unknown', node)
            if x.kind == 'val' and self._has_eq(x) and not self.spec_mode:
                x = self.narrow(x)
            if (self._has_eq(x) or any(self.repo.find_method(c, '__eq__') for c in self.ref_classes(ety))) and not self.spec_mode:
                raise Unsupported('membership with user-defined __eq__', node)
            bx = self.box(x)
            return "(exists ((j Int)) (and (<= 0 j) (< j (len %s)) (= (at %s j) %s)))" % (q, q, bx)
        if cont.kind == 'str':
            if x.kind == 'val':
                x = self.narrow(x)
            if x.kind != 'str':
                st.oblige(FALSE, 'TypeError: in <string> requires string', node.lineno)
                raise PathInfeasible()
            if cont.is_const and x.is_const:
                return TRUE if x.const in cont.const else FALSE
            return "(str.contains %s %s)" % (cont.term, x.term)
        if cont.kind == 'dict':
            if cont.is_const or cont.owned:
                return mk_or(*[self.py_eq(x, k) for k, _ in cont.extra['items']])
            return self.dict_has(cont, x)
        raise Unsupported('membership in %s' % cont.kind, node)

    # ------------------------------------------------------------ attribute / subscript
    def ev_Attribute(self, node):
        base = self.ev(node.value)
        return self.getattr(base, node.attr, node)

    def getattr(self, base, attr, node=None):
        if base.kind == 'global':
            dotted = base.const + '.' + attr
            c = self.repo.resolve_class(base.const)
            if c is not None:
                cn = self.repo.find_class_const(c, attr)
                if cn is not None:
                    return self.const_eval(cn)
            return SV('global', const=dotted)
        if base.kind == 'val':
            base = self.narrow(base)
        if base.kind == 'none':
            self.fail('AttributeError', "None.%s" % attr, getattr(node, 'lineno', 0))
        if base.kind == 'ref':
            classes = self.ref_classes(base.ty)
            ic = self.init_const(classes, attr)
            if ic is not None:
                return ic
            return self.read_attr(base, attr, node)
        if base.kind in ('str', 'int', 'bool', 'list', 'tuple', 'dict'):
            self.st.oblige(FALSE, "AttributeError: %s object has no attribute %s" % (base.kind, attr), getattr(node, 'lineno', 0))
            raise PathInfeasible()
        raise Unsupported('attribute %s of %s' % (attr, base.kind), node)

    def const_eval(self, node):
        """evaluate a constant expression from the source (class constants, __init__ constants)"""
        st = self.st
        saved_env = st.env
        st.env = {}
        try:
            v = self.ev(node)
        finally:
            st.env = saved_env
        return v

    def init_const(self, classes, attr):
        """attributes assigned once, in __init__ or as class constants, with a constant value, and
        never stored anywhere else in the repository (checked structurally on every run)"""
        key = (tuple(sorted(classes)), attr)
        if key in self.init_const_cache:
            return self.init_const_cache[key]
        res = None
        vals = []
        for c in classes:
            n = self.repo.find_class_const(c, attr)
            if n is None:
                n = self.find_init_assign(c, attr)
            vals.append(n)
        if vals and all(v is not None for v in vals) and self.stores_of_attr(attr) == 0:
            saved_mute = self.st.mute
            self.st.mute = True
            nob, npc = len(self.st.obligations), len(self.st.pc)
            try:
                svs = [self.const_eval(v) for v in vals]
            except Exception:
                svs = []
            finally:
                self.st.mute = saved_mute
                del self.st.obligations[nob:]
                del self.st.pc[npc:]
            def okc(s):
                if s.kind in ('global', 'func', 'exc', 'super'):
                    return False
                if s.elems is not None:
                    return all(okc(e) for e in s.elems)
                return s.is_const
            if svs and all(okc(s) for s in svs):
                first = svs[0]
                if all(self._same_const(first, s) for s in svs[1:]):
                    res = first
        self.init_const_cache[key] = res
        return res

    def _same_const(self, a, b):
        if a.is_const and b.is_const:
            return a.const == b.const
        if a.elems is not None and b.elems is not None:
            return [e.const for e in a.elems] == [e.const for e in b.elems]
        return False

    def find_init_assign(self, cname, attr):
        found = None
        for c in self.repo.mro(cname):
            k = self.repo.classes[c]['methods'].get('__init__')
            if not k:
                continue
            fn = self.repo.functions[k].node
            cnt = 0
            for n in ast.walk(fn):
                tgt = None
                if isinstance(n, ast.Assign) and len(n.targets) == 1:
                    tgt, val = n.targets[0], n.value
                elif isinstance(n, ast.AnnAssign) and n.value is not None:
                    tgt, val = n.target, n.value
                if tgt is not None and isinstance(tgt, ast.Attribute) and tgt.attr == attr \
                        and isinstance(tgt.value, ast.Name) and tgt.value.id == 'self':
                    cnt += 1
                    found = val
            if cnt == 1:
                # must be a top-level statement of __init__ (unconditional)
                for stt in fn.body:
                    if isinstance(stt, (ast.Assign, ast.AnnAssign)) and stt.value is found:
                        return found
                return None
            if cnt > 1:
                return None
        return None

    def stores_of_attr(self, attr):
        """number of stores `<expr>.attr = ...` / augmented / mutating method calls outside __init__"""
        if attr in self.store_count_cache:
            return self.store_count_cache[attr]
        cnt = 0
        for key, fi in self.repo.functions.items():
            is_init = fi.node.name == '__init__'
            for n in ast.walk(fi.node):
                if isinstance(n, ast.Attribute) and n.attr == attr:
                    if isinstance(n.ctx, (ast.Store, ast.Del)):
                        if not (is_init and isinstance(n.value, ast.Name) and n.value.id == 'self'):
                            cnt += 1
                if isinstance(n, ast.Call) and isinstance(n.func, ast.Attribute) and \
                        n.func.attr in ('append', 'extend', 'pop', 'remove', 'insert', 'clear', 'update', 'sort', 'reverse', 'setdefault') \
                        and isinstance(n.func.value, ast.Attribute) and n.func.value.attr == attr:
                    cnt += 1
                if isinstance(n, ast.Subscript) and isinstance(n.ctx, (ast.Store, ast.Del)) and \
                        isinstance(n.value, ast.Attribute) and n.value.attr == attr:
                    cnt += 1
        self.store_count_cache[attr] = cnt
        return cnt

    def ev_Subscript(self, node):
        base = self.ev(node.value)
        return self.subscript(base, node.slice, node)

    def subscript(self, base, sl, node):
        st = self.st
        if base.kind == 'val':
            base = self.narrow(base)
        if isinstance(sl, ast.Slice):
            return self.slice_of(base, sl, node)
        idx = self.ev(sl)
        if base.kind == 'arr':
            return self.arr_select(base, idx)
        if base.kind in ('list', 'tuple'):
            if idx.kind == 'val':
                idx = self.narrow(idx)
            if idx.kind != 'int':
                raise Unsupported('non-int index', node)
            return self.seq_at(base, idx, node.lineno, check=not self.spec_mode)
        if base.kind == 'dict':
            if base.owned:
                for k, v in base.extra['items']:
                    c = self.py_eq(idx, k)
                    if c == TRUE:
                        return v
                    if c != FALSE:
                        raise Unsupported('owned dict lookup with undecided key', node)
                st.oblige(FALSE, 'KeyError', node.lineno)
                raise PathInfeasible()
            if base.is_const:
                items = base.extra['items']
                hits = [self.py_eq(idx, k) for k, _ in items]
                if not self.spec_mode:
                    st.oblige(mk_or(*hits), 'KeyError', node.lineno)
                    st.assume(mk_or(*hits), 'pc')
                res = self.box(items[-1][1])
                tys = set(items[-1][1].ty)
                for h, (k, v) in list(zip(hits, items))[-2::-1]:
                    res = mk_ite(h, self.box(v), res)
                    tys |= set(v.ty)
                return self.unbox(res, frozenset(tys), assume=False)
            if not self.spec_mode:
                st.oblige(self.dict_has(base, idx), 'KeyError: key present', node.lineno)
            return self.dict_read(base, idx)
        if base.kind == 'str':
            if idx.kind != 'int':
                raise Unsupported('str index', node)
            if base.is_const and idx.is_const:
                try:
                    return self.const(base.const[idx.const])
                except IndexError:
                    st.oblige(FALSE, 'string index out of range', node.lineno)
                    raise PathInfeasible()
            ln = "(str.len %s)" % base.term
            if idx.is_const and idx.const < 0:
                it = mk_add(ln, int_lit(idx.const))
            else:
                it = idx.term
            if not self.spec_mode:
                st.oblige(mk_and(mk_le('0', it), mk_lt(it, ln)), 'string index in range', node.lineno)
            return self.mk_str("(str.at %s %s)" % (base.term, it))
        if base.kind == 'none':
            self.fail('TypeError', 'None is not subscriptable', node.lineno)
        raise Unsupported('subscript of %s' % base.kind, node)

    def slice_of(self, base, sl, node):
        if sl.step is not None:
            raise Unsupported('slice step', node)
        lo = self.ev(sl.lower) if sl.lower is not None else None
        hi = self.ev(sl.upper) if sl.upper is not None else None
        for b in (lo, hi):
            if b is not None and b.kind != 'int':
                raise Unsupported('slice bound kind', node)
        if base.kind == 'str':
            if base.is_const and (lo is None or lo.is_const) and (hi is None or hi.is_const):
                return self.const(base.const[(lo.const if lo else None):(hi.const if hi else None)])
            ln = "(str.len %s)" % base.term
            lot = self._norm_bound(lo, ln, '0')
            hit = self._norm_bound(hi, ln, ln)
            return self.mk_str("(str.substr %s %s %s)" % (base.term, lot, mk_sub(hit, lot)))
        if base.kind in ('list', 'tuple'):
            if base.elems is not None and (lo is None or lo.is_const) and (hi is None or hi.is_const):
                return SV(base.kind, elems=base.elems[(lo.const if lo else None):(hi.const if hi else None)],
                          owned=(base.kind == 'list'), ty=base.ty)
            q = self.seq_of(base)
            ln = "(len %s)" % q
            lot = self._norm_bound(lo, ln, '0')
            hit = self._norm_bound(hi, ln, ln)
            # python clamps hi below lo to an empty slice
            hit2 = mk_ite(mk_lt(hit, lot), lot, hit)
            return SV(base.kind, ty=base.ty, seq=self.s_slice(q, lot, hit2), owned=(base.kind == 'list'))
        raise Unsupported('slice of %s' % base.kind, node)

    def _norm_bound(self, b, ln, default):
        if b is None:
            return default
        if b.is_const:
            if b.const < 0:
                t = mk_add(ln, int_lit(b.const))
                return mk_ite(mk_lt(t, '0'), '0', t)
            if b.const == 0:
                return '0'
            return mk_ite(mk_lt(ln, b.term), ln, b.term)
        t = b.term
        t = mk_ite(mk_lt(t, '0'), mk_ite(mk_lt(mk_add(ln, t), '0'), '0', mk_add(ln, t)), mk_ite(mk_lt(ln, t), ln, t))
        return t

    def arr_select(self, arr, idx):
        ksort, vsort = arr.extra
        k = self.box(idx) if ksort == 'Val' else idx.term
        t = mk_select(arr.term, k)
        return self.from_sort(t, vsort, arr.ty)

    def from_sort(self, t, sort, ty=None):
        if sort == 'Int':
            return self.mk_int(t)
        if sort == 'Bool':
            return self.mk_bool(t)
        if sort == 'String':
            return self.mk_str(t)
        if sort == 'Val':
            vt = ANY
            for a in (ty or ()):
                if isinstance(a, tuple) and a[0] == 'arrval':
                    vt = a[1]
            return self.unbox(t, vt) if 'any' not in vt else SV('val', t, ANY)
        raise Unsupported('sort ' + sort)

    # ------------------------------------------------------------ comprehensions
    def ev_ListComp(self, node):
        return self.comprehension(node, node.elt, 'list')

    def ev_GeneratorExp(self, node):
        return self.comprehension(node, node.elt, 'list')

    def comprehension(self, node, elt, kind):
        st = self.st
        if len(node.generators) != 1:
            raise Unsupported('nested comprehension', node)
        g = node.generators[0]
        it = self.iter_spec(g.iter, node)
        if it['concrete'] is not None:
            out = []
            saved = dict(st.env)
            for item in it['concrete']:
                self.bind_target(g.target, item)
                ok = True
                for c in g.ifs:
                    t, rt, rf = self.cond(c)
                    if t == TRUE:
                        continue
                    if t == FALSE:
                        ok = False
                        break
                    d = st.decide(2, 'compif@%d' % node.lineno)
                    if d == 0:
                        st.assume(t)
                        self.apply_refine(rt)
                    else:
                        st.assume(mk_not(t))
                        ok = False
                        break
                if ok:
                    out.append(self.ev(elt))
            st.env = saved
            return SV('list', elems=out, owned=True, ty=parse_ty('list'))
        if g.ifs:
            if isinstance(elt, ast.Name) and isinstance(g.target, ast.Name) and elt.id == g.target.id:
                return self.filter_comprehension(node, elt, g, it)
            if not isinstance(g.target, ast.Name):
                raise Unsupported('filtered comprehension with a tuple target that also maps', node)
            # [e(x) for x in xs if p(x)]  ==  [e(x) for x in [x for x in xs if p(x)]]
            filt = self.filter_comprehension(node, g.target, g, it)
            q = self.seq_of(filt)
            ety = self.elem_ty(filt)
            it = dict(concrete=None, count="(len %s)" % q, item=lambda j: self.elem_unbox(filt, "(at %s %s)" % (q, j), ety), sv=filt, seq=q)
        return self.map_comprehension(node, elt, g, it)

    def map_comprehension(self, node, elt, g, it):
        st = self.st
        # symbolic map: fresh sequence with a pointwise definition
        n = it['count']
        j = st.decls.bound_var('cj')
        saved = dict(st.env)
        mark = len(st.pc)
        nob = len(st.obligations)
        rng = mk_and(mk_le('0', j), mk_lt(j, n))
        st.decls.bound.append(j)
        try:
            item = it['item'](j)
            self.bind_target(g.target, item)
            heap_before = dict(st.heap)
            other_before = (st.seqh, st.ddom, st.dval, dict(st.ghost))
            val = self.ev(elt)
            bval = self.box(val)
            st.env = saved
            if (st.seqh, st.ddom, st.dval) != other_before[:3] or any(st.ghost.get(k) is not v for k, v in other_before[3].items()):
                raise Unsupported('list/dict/ghost effects inside a comprehension over a symbolic sequence', node)
            for a in list(st.heap):
                if heap_before.get(a, st.decls.base_heap.get(a)) != st.heap[a]:
                    # the body ran for every element: every object may have been written
                    st.heap[a] = st.decls.const('H_' + a, '(Array Int Val)')
                    st.bump(a)
            side = [t for t, k in st.pc[mark:] if k in ('wf', 'def', 'lib')]
            cside = [t for t, k in st.pc[mark:] if k not in ('wf', 'def', 'lib')]
            del st.pc[mark:]
        finally:
            st.decls.bound.pop()
            # obligations raised inside the body hold for every index of the range
            side_now = [t for t, _ in st.pc[mark:]]
            for ob in st.obligations[nob:]:
                pre = [t for t, _ in ob.assumptions[mark:]]
                ob.goal = "(forall ((%s Int)) %s)" % (j, mk_implies(mk_and(rng, *pre), ob.goal))
                ob.assumptions = ob.assumptions[:mark]
        # hash-consing: the sequence is determined by the (canonical) text of its defining body
        import hashlib
        canon = (n + '|' + bval + '|' + '&'.join(cside)).replace(j, '$J')
        for bi, b in enumerate(st.decls.bound):
            canon = canon.replace(b, '$B%d' % bi)
        q = 'qc_' + hashlib.sha1(canon.encode()).hexdigest()[:12]
        outer = [b for b in st.decls.bound if b in (n + bval + ''.join(cside))]
        if outer:
            st.decls.funs[q] = (tuple('Int' for _ in outer), 'Int')
            q = '(%s %s)' % (q, ' '.join(outer))
        else:
            st.decls.consts[q] = 'Int'
        import os
        if os.environ.get('PYVC_DEBUG'): print('CANON', q, canon[:600])
        st.assume(mk_eq("(len %s)" % q, n), 'def')
        # unconditional facts (typing, definitions) hold for every index; facts that stem from a
        # case split inside the body only guard the element equation
        body = mk_implies(rng, mk_and(*(side + [mk_implies(mk_and(*cside), mk_eq("(at %s %s)" % (q, j), bval))])))
        st.assume("(forall ((%s Int)) (! %s :pattern ((at %s %s))))" % (j, body, q, j), 'def')
        ety = val.ty if val.kind != 'val' else val.ty
        lty = frozenset([('list', ety if ety else ANY)])
        return SV('list', ty=lty, seq=q, owned=True, extra={'map': (j, bval, side)})

    def filter_comprehension(self, node, elt, g, it):
        """[x for x in xs if p(x)] over a symbolic sequence: a fresh sequence that is an order-preserving
        sub-sequence of xs made of exactly the elements that satisfy p."""
        st = self.st
        if st.decls.bound:
            raise Unsupported('filtered comprehension inside a quantified body', node)
        if 'seq' not in it:
            raise Unsupported('filtered comprehension over a derived iterable', node)
        src = it['seq']
        q = st.decls.const('qfilt', 'Int')
        f = st.decls.bound_var('fidx')
        st.decls.fun(f, ['Int'], 'Int')
        j = st.decls.bound_var('fj')
        st.decls.bound.append(j)
        saved = dict(st.env)
        mark = len(st.pc)
        try:
            item = it['item']("(%s %s)" % (f, j))
            self.bind_target(g.target, item)
            conds = []
            refined = item
            for c in g.ifs:
                t, rt, rf = self.cond(c)
                conds.append(t)
                for nm, sv in rt:
                    if nm == g.target.id:
                        refined = sv
            side = [t for t, k in st.pc[mark:] if k in ('wf', 'def', 'lib')]
            if any(k not in ('wf', 'def', 'lib') for _, k in st.pc[mark:]):
                raise Unsupported('case split inside a comprehension filter', node)
            del st.pc[mark:]
        finally:
            st.decls.bound.pop()
            st.env = saved
        n = "(len %s)" % q
        rng = mk_and(mk_le('0', j), mk_lt(j, n))
        fj = "(%s %s)" % (f, j)
        # completeness: every element of xs that satisfies the filter is kept (ginv: its position in the result)
        ginv = st.decls.bound_var('finv')
        st.decls.fun(ginv, ['Int'], 'Int')
        i = st.decls.bound_var('fi')
        st.decls.bound.append(i)
        saved2 = dict(st.env)
        mark2 = len(st.pc)
        try:
            self.bind_target(g.target, it['item'](i))
            conds_i = [self.cond(c)[0] for c in g.ifs]
            side_i = [t for t, k in st.pc[mark2:] if k in ('wf', 'def', 'lib')]
            if any(k not in ('wf', 'def', 'lib') for _, k in st.pc[mark2:]):
                raise Unsupported('case split inside a comprehension filter', node)
            del st.pc[mark2:]
        finally:
            st.decls.bound.pop()
            st.env = saved2
        gi = "(%s %s)" % (ginv, i)
        st.assume("(forall ((%s Int)) (! (=> (and (<= 0 %s) (< %s %s) %s) (and (<= 0 %s) (< %s %s) (= (%s %s) %s))) :pattern ((at %s %s))))"
                  % (i, i, i, it['count'], mk_and(*(side_i + conds_i)), gi, gi, n, f, gi, i, src, i), 'lib')
        st.assume(mk_and(mk_le('0', n), mk_le(n, it['count'])), 'lib')
        st.assume("(forall ((%s Int)) (! (=> %s (and (<= 0 %s) (< %s %s) (= (at %s %s) (at %s %s)) %s)) :pattern ((at %s %s))))"
                  % (j, rng, fj, fj, it['count'], q, j, src, fj, mk_and(*(side + conds)), q, j), 'lib')
        st.assume("(forall ((%s Int) (k Int)) (=> (and (<= 0 %s) (< %s k) (< k %s)) (< %s (%s k))))"
                  % (j, j, j, n, fj, f), 'lib')
        self.lib_assumptions.add('filtered list comprehension: the order-preserving sub-sequence of exactly the elements that satisfy the filter')
        ety = refined.ty if refined.kind in ('ref', 'val') else self.elem_ty(it['sv'])
        return SV('list', seq=q, owned=True, ty=frozenset([('list', ety)]))
