"""Type descriptors (well-formedness schema of parse-tree objects) and symbolic values."""
import re

NOCONST = object()

_SIMPLE = ('none', 'bool', 'int', 'str', 'any', 'nestr', 'estr')


def parse_ty(s):
    """'none|str', 'ref:Type|TemplatedType', 'list[ref:Argument]', 'tuple[str,int]', 'dict[int,any]', 'arr[Int,Val]'"""
    if isinstance(s, frozenset):
        return s
    s = s.strip()
    atoms = set()
    for part in _split(s, '|'):
        part = part.strip()
        if part in _SIMPLE:
            atoms.add(part)
        elif part.startswith('ref:'):
            atoms.add(('ref', part[4:]))
        elif part.startswith('list[') and part.endswith(']'):
            atoms.add(('list', parse_ty(part[5:-1])))
        elif part == 'list':
            atoms.add(('list', parse_ty('any')))
        elif part.startswith('tuple[') and part.endswith(']'):
            atoms.add(('tuple', tuple(parse_ty(x) for x in _split(part[6:-1], ','))))
        elif part == 'tuple':
            atoms.add(('tuple', None))
        elif part.startswith('dict[') and part.endswith(']'):
            k, v = _split(part[5:-1], ',')
            atoms.add(('dict', parse_ty(k), parse_ty(v)))
        elif part.startswith('arr[') and part.endswith(']'):
            k, v = _split(part[4:-1], ',')
            atoms.add(('arr', k.strip(), v.strip()))
        elif re.fullmatch(r'[A-Za-z_][\w.]*', part):
            atoms.add(('ref', part))
        else:
            raise ValueError('bad type %r' % s)
    return frozenset(atoms)


def _split(s, sep):
    out, d, cur = [], 0, ''
    for ch in s:
        if ch == '[':
            d += 1
        elif ch == ']':
            d -= 1
        if ch == sep and d == 0:
            out.append(cur)
            cur = ''
        else:
            cur += ch
    out.append(cur)
    return out


ANY = parse_ty('any')
T_STR = parse_ty('str')
T_INT = parse_ty('int')
T_BOOL = parse_ty('bool')
T_NONE = parse_ty('none')


def ty_str(ty):
    out = []
    for a in sorted(ty, key=str):
        if isinstance(a, str):
            out.append(a)
        elif a[0] == 'ref':
            out.append('ref:' + a[1])
        elif a[0] == 'list':
            out.append('list[%s]' % ty_str(a[1]))
        elif a[0] == 'tuple':
            out.append('tuple' if a[1] is None else 'tuple[%s]' % ','.join(ty_str(x) for x in a[1]))
        elif a[0] == 'dict':
            out.append('dict[%s,%s]' % (ty_str(a[1]), ty_str(a[2])))
        else:
            out.append(str(a))
    return '|'.join(out)


def atom_kind(a):
    if a in ('nestr', 'estr'):   # non-empty string (identifiers) / the empty string (absent parent etc.)
        return 'str'
    return a if isinstance(a, str) else a[0]


class SV:
    """A symbolic value.  kind in none|bool|int|str|ref|list|tuple|dict|val|arr|global|func"""
    __slots__ = ('kind', 'term', 'ty', 'const', 'elems', 'seq', 'owned', 'extra')

    def __init__(self, kind, term=None, ty=None, const=NOCONST, elems=None, seq=None, owned=False, extra=None):
        self.kind = kind
        self.term = term
        self.ty = ty
        self.const = const
        self.elems = elems
        self.seq = seq
        self.owned = owned
        self.extra = extra

    def __repr__(self):
        if self.const is not NOCONST:
            return 'SV(%s const=%r)' % (self.kind, self.const)
        if self.elems is not None:
            return 'SV(%s elems=%r)' % (self.kind, self.elems)
        return 'SV(%s %s : %s)' % (self.kind, self.term if self.term is not None else self.seq,
                                  ty_str(self.ty) if self.ty else '?')

    @property
    def is_const(self):
        return self.const is not NOCONST
