"""Value-level operations of the symbolic executor: boxing, typing, truthiness,
equality, string conversion, sequences, heap access."""
from . import smt
from .smt import (mk_and, mk_or, mk_not, mk_eq, mk_ite, mk_concat, mk_add, mk_sub, mk_lt, mk_le,
                  mk_select, mk_store, mk_implies, str_lit, int_lit, TRUE, FALSE)
from .types import SV, NOCONST, parse_ty, atom_kind, ANY, T_STR, T_INT, T_BOOL, T_NONE, ty_str


class Unsupported(Exception):
    def __init__(self, msg, node=None):
        super().__init__(msg)
        self.node = node


TAG = {'none': 'VNone', 'bool': 'VB', 'int': 'VI', 'str': 'VS', 'ref': 'VRef', 'list': 'VLst',
       'tuple': 'VTup', 'dict': 'VDct'}
SEL = {'bool': 'vb', 'int': 'vi', 'str': 'vs', 'ref': 'vr', 'list': 'vl', 'tuple': 'vt', 'dict': 'vd'}


def is_tag(kind, t):
    return "((_ is %s) %s)" % (TAG[kind], t)


class ValueOps:
    """mixin; expects self.st (State), self.repo (Repo), self.schema"""

    def share(self, sv, name='t'):
        """name a large term once (term sharing keeps the VC text small)"""
        st = self.st
        if sv is None or sv.kind not in ('str', 'int', 'bool') or sv.term is None or len(sv.term) < 240 \
                or st.decls.bound or sv.is_const:
            return sv
        sort = {'str': 'String', 'int': 'Int', 'bool': 'Bool'}[sv.kind]
        key = ('share', sv.term)
        c = self.share_cache.get(key)
        if c is None:
            c = st.decls.const('sh_' + name, sort)
            self.share_cache[key] = c
        st.assume(mk_eq(c, sv.term), 'def')
        return SV(sv.kind, c, sv.ty)

    def index_ok(self, cond, note, lineno):
        """a subscript whose index must be in range: an obligation, unless the contract under verification lists IndexError
        among the exceptions it lets escape -- then the normal path simply continues where the index was in range"""
        if 'IndexError' in getattr(self, 'cur_raises', {}) and not self.spec_mode:
            self.st.assume(cond, 'pc')
            return
        self.st.oblige(cond, note, lineno)

    def fail(self, exc, msg, lineno=0):
        """a point where python raises `exc`: allowed exit if the contract lists it, else an obligation"""
        if exc in getattr(self, 'cur_raises', {}) and not self.spec_mode:
            raise RaisedExc(exc, lineno)
        self.st.oblige(FALSE, '%s: %s' % (exc, msg), lineno)
        raise PathInfeasible()

    # ------------------------------------------------------------ constants
    def const(self, v):
        if v is None:
            return SV('none', const=None, ty=T_NONE)
        if isinstance(v, bool):
            return SV('bool', TRUE if v else FALSE, T_BOOL, const=v)
        if isinstance(v, int):
            return SV('int', int_lit(v), T_INT, const=v)
        if isinstance(v, str):
            return SV('str', str_lit(v), T_STR, const=v)
        if isinstance(v, tuple):
            return SV('tuple', elems=[self.const(x) for x in v], const=v, ty=parse_ty('tuple'))
        if isinstance(v, list):
            return SV('list', elems=[self.const(x) for x in v], owned=True, ty=parse_ty('list'))
        if isinstance(v, dict):
            return SV('dict', const=v, extra={'items': [(self.const(k), self.const(x)) for k, x in v.items()]},
                      ty=parse_ty('dict[any,any]'))
        raise Unsupported('constant %r' % (v,))

    def mk_int(self, t):
        return SV('int', t, T_INT, const=smt.int_lit_value(t) if smt.is_int_lit(t) else NOCONST)

    def mk_str(self, t):
        return SV('str', t, T_STR, const=smt.str_lit_value(t) if smt.is_str_lit(t) else NOCONST)

    def mk_bool(self, t):
        return SV('bool', t, T_BOOL, const=(t == TRUE) if t in (TRUE, FALSE) else NOCONST)

    # ------------------------------------------------------------ class sets
    def ref_classes(self, ty):
        """expand the ref atoms of a type to the set of concrete class-table names (incl. subclasses)"""
        out = []
        for a in ty:
            if atom_kind(a) == 'ref':
                c = self.repo.resolve_class(a[1])
                if c is None:
                    raise Unsupported('unknown class %s' % a[1])
                if len(a) == 3 and a[2]:
                    if c not in out:
                        out.append(c)
                    continue
                for s in self.repo.subclasses(c):
                    if s not in out:
                        out.append(s)
        return out

    def cls_in(self, r, classes):
        return mk_or(*[mk_eq("(cls %s)" % r, int_lit(self.repo.class_id(c))) for c in sorted(classes)])

    # ------------------------------------------------------------ boxing
    def seq_of(self, sv):
        """seq id term of a list/tuple SV"""
        st = self.st
        if sv.kind == 'tuple' or (sv.kind == 'list' and sv.owned):
            if sv.seq is None:
                if sv.elems is None:
                    raise Unsupported('sequence without spine')
                import hashlib
                boxed = [self.box(e) for e in sv.elems]
                canon = '|'.join(boxed)
                for bi, b in enumerate(st.decls.bound):
                    canon = canon.replace(b, '$B%d' % bi)
                q = 'q_' + hashlib.sha1(canon.encode()).hexdigest()[:12]
                outer = [b for b in st.decls.bound if any(b in x for x in boxed)]
                if outer:
                    st.decls.funs[q] = (tuple('Int' for _ in outer), 'Int')
                    q = '(%s %s)' % (q, ' '.join(outer))
                else:
                    st.decls.consts[q] = 'Int'
                import os
                if os.environ.get('PYVC_DEBUG'): print('SPINE', q, boxed)
                st.assume(mk_eq("(len %s)" % q, int_lit(len(sv.elems))), 'def')
                for j, b in enumerate(boxed):
                    st.assume(mk_eq("(at %s %d)" % (q, j), b), 'def')
                if sv.kind == 'tuple':
                    sv.seq = q
                else:
                    return q      # owned list with spine: keep the spine authoritative
            return sv.seq
        if sv.kind == 'list':
            return mk_select(self.seqheap(), sv.term)
        raise Unsupported('seq_of %s' % sv.kind)

    def seqheap(self):
        st = self.st
        if getattr(self, 'read_log', None) is not None:
            self.read_log.add('SEQ')
        if st.seqh is None:
            if getattr(st.decls, 'base_seq', None) is None:
                st.decls.base_seq = st.decls.global_const('SEQ', '(Array Int Int)')
            st.seqh = st.decls.base_seq
        return st.seqh

    def box(self, sv):
        k = sv.kind
        if k == 'val':
            return sv.term
        if k == 'none':
            return 'VNone'
        if k in ('bool', 'int', 'str', 'ref'):
            return "(%s %s)" % (TAG[k], sv.term)
        if k == 'tuple':
            return "(VTup %s)" % self.seq_of(sv)
        if k == 'list':
            if sv.owned:
                self.materialise(sv)
            return "(VLst %s)" % sv.term
        if k == 'dict':
            if sv.owned:
                st = self.st
                r = self.new_ref()
                dom, val = self.dict_heaps()
                st.ddom = mk_store(dom, r, "((as const (Array Val Bool)) false)")
                st.bump('DICT')
                items = sv.extra['items']
                sv.owned = False
                sv.term = r
                for kk, vv in items:
                    self.dict_write(sv, kk, vv)
                sv.extra = None
            if sv.term is None:
                raise Unsupported('boxing a constant dict')
            return "(VDct %s)" % sv.term
        raise Unsupported('cannot box %s' % k)

    def materialise(self, sv):
        """turn an owned (local, pure) list into a heap list with a fresh identity"""
        st = self.st
        q = self.seq_of(sv)
        r = self.new_ref()
        st.seqh = mk_store(self.seqheap(), r, q)
        st.bump('SEQ')
        sv.owned = False
        sv.term = r
        sv.seq = None
        sv.elems = None

    def new_ref(self):
        st = self.st
        if st.alloc is None:
            st.alloc = st.decls.global_const('alloc', 'Int')
        r = st.alloc
        st.alloc = mk_add(st.alloc, '1')
        return r

    def unbox(self, t, ty, assume=True):
        """Val term + declared type -> SV; adds the well-formedness (typing) assumption"""
        st = self.st
        ty = parse_ty(ty)
        if 'any' in ty:
            return SV('val', t, ty)
        kinds = sorted({atom_kind(a) for a in ty})
        if assume:
            st.assume(mk_or(*[is_tag(k, t) for k in kinds]), 'wf')
        if len(kinds) == 1:
            return self._unbox_kind(t, kinds[0], ty, assume)
        return SV('val', t, ty)

    def _unbox_kind(self, t, k, ty, assume=True):
        st = self.st
        if k == 'none':
            return SV('none', const=None, ty=T_NONE)
        u = "(%s %s)" % (SEL[k], t)
        # (vs (VS x)) -> x
        pre = "(%s " % TAG[k]
        if t.startswith(pre) and t.endswith(')'):
            inner = t[len(pre):-1]
            if len(smt.split_top(inner)) == 1:
                u = inner
        if k == 'str':
            if assume and 'nestr' in ty and 'str' not in ty and 'estr' not in ty:
                st.assume(mk_not(mk_eq(u, '""')), 'wf')
            if assume and 'estr' in ty and 'str' not in ty and 'nestr' not in ty:
                st.assume(mk_eq(u, '""'), 'wf')
            return self.mk_str(u)
        if k == 'int':
            return self.mk_int(u)
        if k == 'bool':
            return self.mk_bool(u)
        if k == 'ref':
            sub = frozenset(a for a in ty if atom_kind(a) == 'ref')
            if assume:
                st.assume(self.cls_in(u, self.ref_classes(sub)), 'wf')
                if st.alloc is not None:
                    st.assume(mk_lt(u, st.alloc), 'wf')
            return SV('ref', u, sub)
        if k == 'list':
            sub = frozenset(a for a in ty if atom_kind(a) == 'list')
            sv = SV('list', u, sub)
            if assume:
                q = mk_select(self.seqheap(), u)
                st.assume(mk_le('0', "(len %s)" % q), 'wf')
                if st.alloc is not None:
                    st.assume(mk_lt(u, st.alloc), 'wf')
                self.assume_elem_types(q, self.elem_ty(sv))
            return sv
        if k == 'tuple':
            sub = frozenset(a for a in ty if atom_kind(a) == 'tuple')
            sv = SV('tuple', None, sub, seq=u)
            arities = {len(a[1]) for a in sub if a[1] is not None}
            if assume:
                if len(arities) == 1 and all(a[1] is not None for a in sub):
                    st.assume(mk_eq("(len %s)" % u, int_lit(arities.pop())), 'wf')
                else:
                    st.assume(mk_le('0', "(len %s)" % u), 'wf')
            return sv
        if k == 'dict':
            sub = frozenset(a for a in ty if atom_kind(a) == 'dict')
            if assume and st.alloc is not None:
                st.assume(mk_lt(u, st.alloc), 'wf')
            return SV('dict', u, sub)
        raise Unsupported('unbox ' + k)

    def assume_invariants(self, sv):
        """class invariants of tree objects (assumed well-formedness, DESIGN.md trusted base item 7)"""
        invs = getattr(self, 'invariants', None)
        if not invs or getattr(self, '_inv_depth', 0) >= 1:
            return
        classes = self.ref_classes(sv.ty)
        groups = {}
        for c in classes:
            mine = []
            for m in self.repo.mro(c):
                mine += invs.get(m, [])
            if mine:
                groups.setdefault(tuple(mine), []).append(c)
        if not groups:
            return
        key = (sv.term, tuple(sorted(groups)), self.st.ver)
        if key in self.seq_axioms_done:
            return
        self.seq_axioms_done.add(key)
        self._inv_depth = getattr(self, '_inv_depth', 0) + 1
        saved = self.st.env
        try:
            for texts, cs in groups.items():
                guard = TRUE if len(cs) == len(classes) else self.cls_in(sv.term, cs)
                self.st.env = {'self': SV('ref', sv.term, frozenset(('ref', c, True) for c in cs))}
                for t in texts:
                    self.st.assume(mk_implies(guard, self.spec_eval_bool(t)), 'wf')
        finally:
            self.st.env = saved
            self._inv_depth -= 1

    def assume_elem_types(self, q, ety):
        """quantified typing fact for the elements of a typed sequence (simple element kinds only)"""
        ks = {atom_kind(a) for a in ety}
        if 'any' in ks or not ks or not ks <= {'str', 'int', 'bool', 'none', 'ref'}:
            return
        e = "(at %s j)" % q
        facts = [mk_or(*[is_tag(k, e) for k in sorted(ks)])]
        if ks == {'ref'}:
            facts.append(self.cls_in("(vr %s)" % e, self.ref_classes(ety)))
        if ks == {'str'} and 'nestr' in ety and 'str' not in ety:
            facts.append(mk_not(mk_eq("(vs %s)" % e, '""')))
        self.st.assume("(forall ((j Int)) (! (=> (and (<= 0 j) (< j (len %s))) %s) :pattern ((at %s j))))"
                       % (q, mk_and(*facts), q), 'wf')

    def narrow(self, sv, want=None):
        """make the kind of a 'val' definite by forking over its possible tags"""
        if sv.kind != 'val':
            return sv
        st = self.st
        if 'any' in sv.ty:
            if self.spec_mode and want in ('str', 'int', 'bool'):
                # specifications are total: the operand is read at the kind the operation needs
                return self._unbox_kind(sv.term, want, frozenset([want]), assume=False)
            raise Unsupported('value of unknown type (any) used where a definite kind is needed')
        kinds = sorted({atom_kind(a) for a in sv.ty})
        if self.spec_mode and want in kinds:
            # specifications are total: the operand is read at the kind the operation needs
            sub = frozenset(a for a in sv.ty if atom_kind(a) == want)
            return self._unbox_kind(sv.term, want, sub, assume=False)
        if self.spec_mode and len(kinds) > 1 and 'none' in kinds:
            kinds.remove('none')      # specifications talk about the non-None case; selectors are total
        kinds = self.prune_kinds(sv.term, kinds)
        # prune by syntactic tag
        for k in kinds:
            if sv.term.startswith("(%s " % TAG[k]) or (k == 'none' and sv.term == 'VNone'):
                kinds = [k]
        d = st.decide(len(kinds), 'tag') if len(kinds) > 1 else 0
        k = kinds[d]
        if len(kinds) > 1:
            st.assume(is_tag(k, sv.term), 'pc')
        sub = frozenset(a for a in sv.ty if atom_kind(a) == k)
        return self._unbox_kind(sv.term, k, sub)

    def prune_kinds(self, term, kinds):
        """drop the tags that the path condition already excludes / keep the one it asserts (syntactic)"""
        if len(kinds) <= 1:
            return kinds
        pcs = {t for t, _ in self.st.pc} | set(getattr(self, 'guards', []))
        for k in kinds:
            if is_tag(k, term) in pcs:
                return [k]
        left = [k for k in kinds if mk_not(is_tag(k, term)) not in pcs]
        return left or kinds

    def restrict(self, sv, kinds_true):
        """after a successful test: keep only the listed kinds"""
        if sv.kind != 'val':
            return sv
        sub = frozenset(a for a in sv.ty if atom_kind(a) in kinds_true)
        if not sub:
            return sv
        ks = {atom_kind(a) for a in sub}
        if len(ks) == 1:
            return self._unbox_kind(sv.term, ks.pop(), sub)
        return SV('val', sv.term, sub)

    # ------------------------------------------------------------ truthiness
    def truthy(self, sv):
        k = sv.kind
        if sv.is_const and k not in ('tuple', 'dict'):
            return TRUE if sv.const else FALSE
        if k == 'none':
            return FALSE
        if k == 'bool':
            return sv.term
        if k == 'int':
            return mk_not(mk_eq(sv.term, '0'))
        if k == 'str':
            return mk_not(mk_eq(sv.term, '""'))
        if k == 'ref':
            classes = self.ref_classes(sv.ty)
            for c in classes:
                if self.repo.find_method(c, '__len__') or self.repo.find_method(c, '__bool__'):
                    raise Unsupported('truthiness of object with __len__/__bool__ (%s)' % c)
            return TRUE
        if k in ('list', 'tuple'):
            if sv.elems is not None:
                return TRUE if sv.elems else FALSE
            return mk_lt('0', "(len %s)" % self.seq_of(sv))
        if k == 'dict':
            if sv.is_const:
                return TRUE if sv.const else FALSE
            raise Unsupported('truthiness of symbolic dict')
        if k == 'val':
            if 'any' in sv.ty:
                raise Unsupported('truthiness of any')
            t = sv.term
            res = FALSE
            for a in sorted(sv.ty, key=str):
                kk = atom_kind(a)
                sub = self._unbox_kind(t, kk, frozenset([a]), assume=False)
                res = mk_or(res, mk_and(is_tag(kk, t), self.truthy(sub)))
            return res
        if k in ('global', 'func'):
            return TRUE
        raise Unsupported('truthy ' + k)

    # ------------------------------------------------------------ equality
    def _has_eq(self, sv):
        if sv.kind == 'ref' or sv.kind == 'val':
            for c in self.ref_classes(sv.ty):
                if self.repo.find_method(c, '__eq__'):
                    return True
        return False

    def split_by_eq(self, sv):
        """fork so that either all or none of the possible classes define __eq__"""
        if sv.kind != 'ref':
            return sv
        classes = self.ref_classes(sv.ty)
        w = [c for c in classes if self.repo.find_method(c, '__eq__')]
        wo = [c for c in classes if c not in w]
        if not w or not wo:
            return sv
        d = self.st.decide(2, 'eqclass')
        grp = w if d == 0 else wo
        self.st.assume(self.cls_in(sv.term, grp))
        return SV('ref', sv.term, frozenset(('ref', c, True) for c in grp))

    def py_eq(self, a, b):
        """Bool term for python a == b"""
        if a.is_const and b.is_const and a.kind not in ('dict',) and b.kind not in ('dict',):
            try:
                return TRUE if a.const == b.const else FALSE
            except Exception:
                pass
        if (self._has_eq(a) or self._has_eq(b)) and not self.spec_mode:     # `==` in specifications is structural
            if a.kind == 'val':
                a = self.narrow(a)
            if b.kind == 'val':
                b = self.narrow(b)
            a = self.split_by_eq(a)
            b = self.split_by_eq(b)
            if a.kind == 'ref' and self._has_eq(a):
                return self.truthy(self.call_method(a, '__eq__', [b], {}, None))
            if b.kind == 'ref' and self._has_eq(b):
                return self.truthy(self.call_method(b, '__eq__', [a], {}, None))
            return self.py_eq(a, b)
        simple = ('none', 'bool', 'int', 'str', 'ref')
        if a.kind in simple and b.kind in simple:
            if a.kind != b.kind:
                if {a.kind, b.kind} == {'bool', 'int'}:
                    raise Unsupported('bool/int comparison')
                return FALSE
            if a.kind == 'none':
                return TRUE
            return mk_eq(a.term, b.term)
        if a.kind in ('list', 'tuple') and b.kind in ('list', 'tuple'):
            if a.kind != b.kind:
                return FALSE
            if a.elems is not None and b.elems is not None:
                if len(a.elems) != len(b.elems):
                    return FALSE
                return mk_and(*[self.py_eq(x, y) for x, y in zip(a.elems, b.elems)])
            return self.seq_eq(a, b)
        if a.kind == 'val' or b.kind == 'val':
            for x, y in ((a, b), (b, a)):
                if x.kind == 'val':
                    if 'any' in x.ty:
                        if self.spec_mode:
                            return mk_eq(self.box(a), self.box(b))      # `==` in specifications is structural
                        raise Unsupported('== on any')
                    ks = {atom_kind(t) for t in x.ty}
                    if ks & {'list', 'tuple', 'dict'}:
                        if y.kind in simple:
                            # a simple value never equals a container
                            continue
                        raise Unsupported('== between containers of unknown shape')
            return mk_eq(self.box(a), self.box(b))
        if (a.kind in simple) != (b.kind in simple):
            return FALSE
        raise Unsupported('== on %s/%s' % (a.kind, b.kind))

    def seq_eq(self, a, b):
        """structural equality of two sequences: same id, or (as a goal/assumption) pointwise equal"""
        qa, qb = self.seq_of(a), self.seq_of(b)
        if qa == qb:
            return TRUE
        j = self.st.decls.bound_var('j')
        body = "(forall ((%s Int)) (=> (and (<= 0 %s) (< %s (len %s))) (= (at %s %s) (at %s %s))))" % (
            j, j, j, qa, qa, j, qb, j)
        return mk_or(mk_eq(qa, qb), mk_and(mk_eq("(len %s)" % qa, "(len %s)" % qb), body))

    # ------------------------------------------------------------ str()
    def int_to_str(self, t):
        if smt.is_int_lit(t):
            return str_lit(str(smt.int_lit_value(t)))
        # str(int) is kept uninterpreted (sound for every function, hence for the real one); the
        # solvers' str.from_int reasoning made otherwise syntactic proofs unstable
        self.st.decls.fun('istr', ['Int'], 'String')
        return "(istr %s)" % t

    def to_str(self, sv, node=None):
        """python str(sv) as SV str"""
        k = sv.kind
        if sv.is_const and k in ('none', 'bool', 'int', 'str'):
            return self.const(str(sv.const))
        if k == 'str':
            return sv
        if k == 'int':
            return self.mk_str(self.int_to_str(sv.term))
        if k == 'none':
            return self.const('None')
        if k == 'bool':
            return self.mk_str(mk_ite(sv.term, '"True"', '"False"'))
        if k == 'ref':
            return self.call_method(sv, '__str__', [], {}, node, fallback='__repr__')
        if k == 'val':
            return self.to_str(self.narrow(sv), node)
        raise Unsupported('str() of %s' % k)

    # ------------------------------------------------------------ sequences
    def seq_len(self, sv):
        if sv.elems is not None:
            return int_lit(len(sv.elems))
        return "(len %s)" % self.seq_of(sv)

    def elem_ty(self, sv, idx_const=None):
        tys = set()
        for a in (sv.ty or ANY):
            if isinstance(a, tuple) and a[0] == 'list':
                tys |= set(a[1])
            elif isinstance(a, tuple) and a[0] == 'tuple':
                if a[1] is None:
                    tys.add('any')
                elif idx_const is not None and -len(a[1]) <= idx_const < len(a[1]):
                    tys |= set(a[1][idx_const])
                else:
                    for x in a[1]:
                        tys |= set(x)
            else:
                tys.add('any')
        if sv.elems is not None and not sv.elems and not tys:
            return frozenset()
        return frozenset(tys) or ANY

    def seq_at(self, sv, idx, lineno=0, check=True):
        """element at int SV idx"""
        st = self.st
        if sv.elems is not None:
            if idx.is_const:
                n = len(sv.elems)
                i = idx.const
                if not -n <= i < n:
                    st.oblige(FALSE, 'index %d out of range (length %d)' % (i, n), lineno)
                    raise PathInfeasible()
                return sv.elems[i]
            # symbolic index into a concrete spine
            n = len(sv.elems)
            if check:
                self.index_ok(mk_and(mk_le('0', idx.term), mk_lt(idx.term, int_lit(n))), 'index in range', lineno)
            if n == 0:
                if check:
                    raise PathInfeasible()
                return SV('val', st.decls.const('undef', 'Val'), ANY)      # total selectors in specifications
            kinds = {e.kind for e in sv.elems}
            if len(kinds) == 1 and kinds <= {'int', 'str', 'bool'}:
                t = sv.elems[-1].term
                for j in range(n - 2, -1, -1):
                    t = mk_ite(mk_eq(idx.term, int_lit(j)), sv.elems[j].term, t)
                return SV(sv.elems[0].kind, t, sv.elems[0].ty)
            t = self.box(sv.elems[-1])
            for j in range(n - 2, -1, -1):
                t = mk_ite(mk_eq(idx.term, int_lit(j)), self.box(sv.elems[j]), t)
            return SV('val', t, ANY)
        q = self.seq_of(sv)
        n = "(len %s)" % q
        if idx.is_const and idx.const < 0:
            it = mk_add(n, int_lit(idx.const))
            if check:
                self.index_ok(mk_le(int_lit(-idx.const), n), 'negative index in range', lineno)
        else:
            it = idx.term
            if check:
                self.index_ok(mk_and(mk_le('0', it), mk_lt(it, n)), 'index in range', lineno)
        ety = self.elem_ty(sv, idx.const if idx.is_const else None)
        res = self.elem_unbox(sv, "(at %s %s)" % (q, it), ety)
        df = sv.extra.get('deepfresh') if isinstance(sv.extra, dict) else None
        if df is not None and sv.kind == 'list' and sv.term is not None:
            res = self.mark_deepfresh(res, df, ety, lst=sv.term, idx=it)
        return res

    # ------------------------------------------------------------ heap
    def attr_type(self, classes, attr):
        tys = set()
        found = False
        for c in classes:
            for m in self.repo.mro(c):
                t = self.schema.get(m, {}).get(attr)
                if t is not None:
                    tys |= set(parse_ty(t))
                    found = True
                    break
        if not found:
            return None
        return frozenset(tys)

    def read_attr(self, obj, attr, node=None):
        st = self.st
        classes = self.ref_classes(obj.ty)
        ty = self.attr_type(classes, attr)
        if ty is None:
            raise Unsupported('attribute %s not in schema of %s' % (attr, ','.join(classes)), node)
        arr = st.heap_arr(attr)
        if getattr(self, 'read_log', None) is not None:
            for f in self.families_of(classes):
                self.read_log.add('%s@%s' % (attr, f))
        t = mk_select(arr, obj.term)
        # the field is typed because the object is of a class whose schema says so: recorded as "class => typing", which is an
        # instance of the schema axiom and therefore true in every context -- also when the object was narrowed to that class
        # only inside one alternative of an un-forked conditional (spec if/else, and/or chains)
        g = self.cls_in(obj.term, classes)
        st.push_guard(g)
        try:
            sv = self.unbox(t, ty)
        finally:
            st.pop_guard()
        if len(classes) > 1 and hasattr(self, 'init_const'):
            # a field that one of the possible classes sets once, to a constant (ExprOps.init_const): the heap agrees with it
            for c in classes:
                ic = self.init_const([c], attr)
                if ic is not None and ic.is_const and ic.kind in ('bool', 'str', 'int', 'none'):
                    st.assume(mk_implies(self.cls_in(obj.term, [c]), mk_eq(t, self.box(ic))), 'wf')
        if sv.kind in ('list', 'tuple', 'val') and sv.extra is None:
            sv = SV(sv.kind, sv.term, sv.ty, const=sv.const, elems=sv.elems, seq=sv.seq, owned=sv.owned, extra={'guard': g})
        df = obj.extra.get('deepfresh') if isinstance(obj.extra, dict) else None
        if df is not None:
            sv = self.mark_deepfresh(sv, df, ty, obj=obj.term, attr=attr)
        if arr == st.decls.base_heap.get(attr) and getattr(self, 'alloc0', None) is not None:
            # a value stored in the entry heap refers to an object that existed at entry
            for k in ('ref', 'list', 'dict'):
                if k in {atom_kind(a) for a in ty}:
                    sel = {'ref': 'vr', 'list': 'vl', 'dict': 'vd'}[k]
                    st.assume(mk_implies(mk_and(mk_lt(obj.term, self.alloc0), is_tag(k, t)), mk_lt("(%s %s)" % (sel, t), self.alloc0)), 'wf')
        return sv

    def elem_unbox(self, lst, term, ety):
        """an element of a list that was read from a field: its typing holds under the same class condition as the field's"""
        g = lst.extra.get('guard') if lst is not None and isinstance(lst.extra, dict) else None
        if g is None:
            return self.unbox(term, ety)
        self.st.push_guard(g)
        try:
            return self.unbox(term, ety)
        finally:
            self.st.pop_guard()

    def families_of(self, classes):
        return sorted({self.repo.family(c) for c in classes})

    def mark_deepfresh(self, sv, df, ty, obj=None, attr=None, lst=None, idx=None):
        """a value read out of a deep copy.  The facts are about the heap *at the time of the copy* (the snapshot kept in df) and
        are guarded by membership of the object read in the copy's block of addresses, so they stay sound after the copy has
        been written to: containers stored in a copied object are copies (inside the block, mapped to their originals by the
        copy's `orig` function), other values equal the original's."""
        a0, a1, snap, seqsnap, k, root_seq = df
        st = self.st
        inblock = lambda t: mk_and(mk_le(a0, t), mk_lt(t, a1))
        if obj is not None:
            hc = snap.get(attr)
            if hc is None:
                if attr not in st.decls.base_heap:
                    st.decls.base_heap[attr] = st.decls.global_const('H_' + attr, '(Array Int Val)')
                hc = st.decls.base_heap[attr]
            guard = inblock(obj)
            x = mk_select(hc, obj)
            y = mk_select(hc, "(%s %s)" % (k, obj))
        else:
            guard = inblock(lst)
            qc = mk_select(seqsnap, lst)
            qo = mk_select(seqsnap, "(%s %s)" % (k, lst))
            if root_seq is not None:
                qo = mk_ite(mk_eq(lst, a0), root_seq, qo)
            x = "(at %s %s)" % (qc, idx)
            y = "(at %s %s)" % (qo, idx)
            guard = mk_and(guard, mk_le('0', idx), mk_lt(idx, "(len %s)" % qc))
        kinds = {atom_kind(a) for a in ty}
        anyk = 'any' in ty
        cont = []
        for kk, sel in (('ref', 'vr'), ('list', 'vl'), ('dict', 'vd')):
            if not (anyk or kk in kinds):
                continue
            cx, cy = "(%s %s)" % (sel, x), "(%s %s)" % (sel, y)
            fact = [inblock(cx), is_tag(kk, y), mk_eq("(%s %s)" % (k, cx), cy)]
            if kk == 'ref':
                fact.append(mk_eq("(cls %s)" % cx, "(cls %s)" % cy))
            if kk == 'list':
                fact.append(mk_eq("(len %s)" % mk_select(seqsnap, cx), "(len %s)" % mk_select(seqsnap, cy)))
            st.assume(mk_implies(mk_and(guard, is_tag(kk, x)), mk_and(*fact)), 'lib')
            cont.append(is_tag(kk, x))
        st.assume(mk_implies(mk_and(guard, *[mk_not(c) for c in cont]), mk_eq(x, y)), 'lib')
        if sv.kind in ('ref', 'list', 'dict', 'val') and (sv.extra is None or (isinstance(sv.extra, dict) and 'deepfresh' not in sv.extra)):
            ex = dict(sv.extra or {})
            ex['deepfresh'] = df
            sv = SV(sv.kind, sv.term, sv.ty, const=sv.const, elems=sv.elems, seq=sv.seq, owned=sv.owned, extra=ex)
        return sv

    def write_attr(self, obj, attr, val):
        st = self.st
        st.heap[attr] = mk_store(st.heap_arr(attr), obj.term, self.box(val))
        st.bump(attr, self.families_of(self.ref_classes(obj.ty)))

    # dict heap
    def dict_heaps(self):
        st = self.st
        if getattr(self, 'read_log', None) is not None:
            self.read_log.add('DICT')
        if st.ddom is None:
            if getattr(st.decls, 'base_ddom', None) is None:
                st.decls.base_ddom = st.decls.global_const('DDOM', '(Array Int (Array Val Bool))')
                st.decls.base_dval = st.decls.global_const('DVAL', '(Array Int (Array Val Val))')
            st.ddom = st.decls.base_ddom
            st.dval = st.decls.base_dval
        return st.ddom, st.dval

    def dict_has(self, d, key):
        dom, _ = self.dict_heaps()
        return mk_select(mk_select(dom, d.term), self.box(key))

    def dict_val_ty(self, d):
        tys = set()
        for a in d.ty or ():
            if isinstance(a, tuple) and a[0] == 'dict':
                tys |= set(a[2])
        return frozenset(tys) or ANY

    def dict_read(self, d, key):
        _, val = self.dict_heaps()
        return self.unbox(mk_select(mk_select(val, d.term), self.box(key)), self.dict_val_ty(d))

    def dict_write(self, d, key, value):
        st = self.st
        dom, val = self.dict_heaps()
        k = self.box(key)
        st.ddom = mk_store(dom, d.term, mk_store(mk_select(dom, d.term), k, TRUE))
        st.dval = mk_store(val, d.term, mk_store(mk_select(val, d.term), k, self.box(value)))
        st.bump('DICT')


class PathInfeasible(Exception):
    """the current path ended at a point that has been turned into an obligation"""


class RaisedExc(Exception):
    """a python exception that the contract under verification allows (raises=...)"""
    def __init__(self, exc, lineno):
        self.exc = exc
        self.lineno = lineno
