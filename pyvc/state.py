"""Symbolic state of one path."""
import copy
import itertools

from . import smt
from .types import SV, NOCONST

_counter = itertools.count()


def fresh_name(base):
    return '%s!%d' % (base, next(_counter))


class Decls:
    """symbol declarations shared by all paths of one verification run"""

    def __init__(self):
        self.consts = {}     # name -> sort
        self.funs = {}       # name -> (argsorts, ressort)
        self.axioms = []     # global axioms (about UFs), list of (term, note)
        self.bound = []      # bound Int variables currently in scope
        self.base_heap = {}  # attr -> name of the initial heap array (shared by all snapshots of a run)
        self.plain = set()   # assumptions of the path made without guards (for de-duplication)
        self.guarded = {}    # assumption -> guard stacks it was recorded under
        self.guard_pending = {}   # guard name -> condition whose definition has not been emitted yet
        self.guard_raw = []  # the same conditions as written (guards holds short names defined equal to them)
        self.guards = []     # conditions of the un-forked branches being evaluated (spec if/else, and/or chains): facts assumed there hold under them only

    def const(self, base, sort, exact=False):
        """fresh symbol; inside a quantified body (comprehension / forall) it is a fresh *function* of the
        bound variables in scope, so that facts about it do not become universally quantified nonsense"""
        name = base if exact else fresh_name(base)
        if self.bound and not exact:
            self.funs[name] = (tuple('Int' for _ in self.bound), sort)
            return '(%s %s)' % (name, ' '.join(self.bound))
        self.consts[name] = sort
        return name

    def global_const(self, base, sort):
        name = fresh_name(base)
        self.consts[name] = sort
        return name

    def fresh_fun(self, base, argsorts, ressort):
        name = fresh_name(base)
        self.funs[name] = (tuple(argsorts), ressort)
        return name

    def bound_var(self, base):
        return fresh_name(base)

    def fun(self, name, argsorts, ressort):
        self.funs[name] = (tuple(argsorts), ressort)
        return name

    def text(self):
        out = []
        for n, s in self.consts.items():
            out.append('(declare-const %s %s)' % (n, s))
        for n, (a, r) in self.funs.items():
            out.append('(declare-fun %s (%s) %s)' % (n, ' '.join(a), r))
        return '\n'.join(out)


class Obligation:
    __slots__ = ('goal', 'assumptions', 'note', 'lineno', 'kind', 'func', 'path')

    def __init__(self, goal, assumptions, note, lineno, kind):
        self.goal = goal
        self.assumptions = assumptions
        self.note = note
        self.lineno = lineno
        self.kind = kind      # 'safety' | 'ensures' | 'invariant' | 'requires' | 'raises' | 'lemma'
        self.func = None
        self.path = None


class State:
    def __init__(self, decls):
        self.decls = decls
        self.env = {}
        self.heap = {}          # attr -> array term (Array Int Val)
        self.heapver = {}       # attr -> int version (for UF naming)
        self.seqh = None        # Array Int Int : list ref -> seq id
        self.ddom = None        # Array Int (Array Val Bool)
        self.dval = None        # Array Int (Array Val Val)
        self.alloc = None       # Int term: first unallocated reference
        self.pc = []            # assumptions: list of (term, kind)
        self.obligations = []
        self.ghost = {}         # name -> SV
        self.decisions = []
        self.dpos = 0
        self.dlog = []          # (n_alternatives) for every decision taken
        self.trace = []         # human-readable path description
        self.ver = 0
        self.mute = False

    def bump(self, what, families=None):
        """a write: to the whole heap `what` (families None) or to objects of the given class families only"""
        self.ver += 1
        if families:
            for f in families:
                self.heapver['%s@%s' % (what, f)] = self.ver
        else:
            self.heapver[what] = self.ver

    def version_of(self, key):
        """version of a read key: 'SEQ', 'DICT', or 'attr@Family' (the later of the last whole-heap and family write)"""
        if '@' in key:
            return max(self.heapver.get(key.split('@', 1)[0], 0), self.heapver.get(key, 0))
        return self.heapver.get(key, 0)

    def assume(self, term, kind='pc'):
        if term == smt.TRUE:
            return
        if self.decls.guards and kind != 'def':
            # a typing fact about the fields of an object holds because of the object's class (the schema): it is recorded as
            # "class of the object is one of ... => fact", so that it stays true when the object was only *narrowed* to that
            # class inside a branch that is merged by ite rather than forked
            term = smt.mk_implies(smt.mk_and(*self.decls.guards), term)
        for t, _ in self.pc:
            if t == term:
                return
        self.pc.append((term, kind))

    def push_guard(self, c):
        self.decls.guards.append(c)

    def pop_guard(self):
        self.decls.guards.pop()

    def oblige(self, goal, note, lineno=0, kind='safety'):
        if self.mute:
            return
        if goal == smt.TRUE:
            if kind in ('ensures', 'invariant', 'requires', 'raises'):
                # discharged syntactically by the term simplifier: recorded so that it is counted
                self.obligations.append(Obligation(goal, [], note, lineno, kind))
            return
        if self.decls.guards:
            # an operand python evaluates only when the earlier (un-forked) operands allowed it
            g = smt.mk_and(*self.decls.guards)
            self.obligations.append(Obligation(smt.mk_implies(g, goal), list(self.pc), note, lineno, kind))
            return
        if goal.startswith('(and '):
            parts = smt.split_top(goal[5:-1])
            if len(parts) > 1 and sum(len(x) for x in parts) + len(parts) + 5 == len(goal):
                for k, part in enumerate(parts):
                    self.obligations.append(Obligation(part, list(self.pc), '%s [conjunct %d]' % (note, k), lineno, kind))
                return
        self.obligations.append(Obligation(goal, list(self.pc), note, lineno, kind))

    def decide(self, n, label=''):
        if self.dpos < len(self.decisions):
            d = self.decisions[self.dpos]
        else:
            d = 0
            self.decisions.append(0)
        self.dlog.append(n)
        self.dpos += 1
        self.trace.append('%s=%d' % (label, d))
        return d

    def heap_arr(self, attr):
        if attr not in self.heap:
            if attr not in self.decls.base_heap:
                self.decls.base_heap[attr] = self.decls.global_const('H_' + attr, '(Array Int Val)')
            self.heap[attr] = self.decls.base_heap[attr]
            self.heapver.setdefault(attr, 0)
        return self.heap[attr]

    def snapshot(self):
        s = State(self.decls)
        s.env = dict(self.env)
        s.heap = dict(self.heap)
        s.heapver = dict(self.heapver)
        s.seqh, s.ddom, s.dval, s.alloc = self.seqh, self.ddom, self.dval, self.alloc
        s.ghost = dict(self.ghost)
        s.pc = self.pc          # shared on purpose: reads in old() add wf facts to the live pc
        s.obligations = self.obligations
        s.decisions, s.dpos, s.dlog, s.trace = self.decisions, self.dpos, self.dlog, self.trace
        s.ver = self.ver
        s.mute = self.mute
        return s
