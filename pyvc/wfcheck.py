"""Run-time check of the typed-field schema (contracts/schema.py) on real objects: the proofs *assume* these
field types (trusted base); this module checks them on every tree the bounded tier builds, so that a change
which breaks the typing shows up as an invalidated assumption instead of passing silently."""
from .types import parse_ty, atom_kind


def _class_names(obj):
    return [c.__name__ if c.__qualname__ == c.__name__ else c.__qualname__ for c in type(obj).__mro__]


def _is_seq(v):
    if isinstance(v, (list, tuple)):
        return True
    return type(v).__name__ == 'ParseResults'       # pyparsing's list-like result (len / index / iteration as a list)


def matches(v, ty, schema, depth=0):
    """does the run-time value v inhabit the type ty (a set of atoms)?"""
    for a in ty:
        k = atom_kind(a)
        if k == 'any':
            return True
        if a == 'none' and v is None:
            return True
        if a == 'str' and isinstance(v, str):
            return True
        if a == 'nestr' and isinstance(v, str) and v != '':
            return True
        if a == 'estr' and isinstance(v, str) and v == '':
            return True
        if a == 'bool' and isinstance(v, bool):
            return True
        if a == 'int' and isinstance(v, int) and not isinstance(v, bool):
            return True
        if k == 'ref' and not isinstance(v, (str, int, list, tuple, dict, type(None))):
            if a[1] in _class_names(v) or a[1].split('.')[-1] in [n.split('.')[-1] for n in _class_names(v)]:
                return True
        if k == 'list' and _is_seq(v) and not isinstance(v, tuple):
            if depth > 3 or all(matches(x, a[1], schema, depth + 1) for x in v):
                return True
        if k == 'tuple' and isinstance(v, tuple):
            if a[1] is None:
                return True
            if len(a[1]) == 1 and all(matches(x, a[1][0], schema, depth + 1) for x in v):
                return True
            if len(a[1]) == len(v) and all(matches(x, t, schema, depth + 1) for x, t in zip(v, a[1])):
                return True
        if k == 'dict' and isinstance(v, dict):
            return True
    return False


def check(root, schema, limit=20000):
    """walk the objects reachable from root through schema-typed fields; -> list of (class, attr, repr of value, declared type)"""
    bad = []
    seen = set()
    todo = [root]
    n = 0
    while todo and n < limit:
        o = todo.pop()
        if id(o) in seen:
            continue
        seen.add(id(o))
        n += 1
        if _is_seq(o):
            todo.extend(o)
            continue
        if isinstance(o, dict):
            todo.extend(o.values())
            continue
        if isinstance(o, (str, int, float, type(None))):
            continue
        names = _class_names(o)
        fields = {}
        for nm in reversed(names):
            fields.update(schema.get(nm, schema.get(nm.split('.')[-1], {})) if nm in schema or nm.split('.')[-1] in schema else {})
        if not fields:
            continue
        for attr, ty in fields.items():
            if not hasattr(o, attr):
                continue            # set later in the object's life (e.g. ArgumentList.backup)
            v = getattr(o, attr)
            if not matches(v, parse_ty(ty), schema):
                bad.append((names[0], attr, repr(v)[:80], ty))
            if not isinstance(v, (str, int, float, type(None))):
                todo.append(v)
    return bad


def reachable(root, schema, limit=20000):
    """the schema-typed objects reachable from root"""
    out, seen, todo = [], set(), [root]
    while todo and len(seen) < limit:
        o = todo.pop()
        if id(o) in seen:
            continue
        seen.add(id(o))
        if _is_seq(o):
            todo.extend(o)
            continue
        if isinstance(o, dict):
            todo.extend(o.values())
            continue
        if isinstance(o, (str, int, float, type(None))):
            continue
        names = _class_names(o)
        if not any(nm in schema or nm.split('.')[-1] in schema for nm in names):
            continue
        out.append(o)
        for nm in names:
            for attr in schema.get(nm, schema.get(nm.split('.')[-1], {})):
                if hasattr(o, attr):
                    v = getattr(o, attr)
                    if not isinstance(v, (str, int, float, type(None))):
                        todo.append(v)
    return out
