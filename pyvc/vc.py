"""Contracts, spec functions, VC generation for one function, discharge."""
import ast
import os
import time
import traceback

from . import smt
from .smt import (mk_and, mk_or, mk_not, mk_eq, mk_ite, mk_concat, mk_add, mk_sub, mk_lt, mk_le,
                  mk_select, mk_store, mk_implies, str_lit, int_lit, TRUE, FALSE)
from .types import SV, NOCONST, parse_ty, atom_kind, ANY, T_STR, T_INT, T_BOOL, T_NONE
from .values import ValueOps, Unsupported, PathInfeasible, is_tag, RaisedExc
from .evalexpr import ExprOps
from .calls import CallOps, Return
from .stmts import StmtOps, Break, Continue, Raised, PathEnd
from .state import State, Decls, Obligation, fresh_name


class Contract:
    def __init__(self, key, params=None, returns='any', requires=(), ensures=(), modifies=(), raises=None,
                 loops=None, ghost=None, holes=None, assumed=False, note='', result_is=None, frame=True, fresh=False, under=(), opaque=()):
        self.key = key
        self.params = params or {}
        self.returns = returns
        self.requires = list(requires)
        self.ensures = list(ensures)
        self.modifies = list(modifies)
        self.raises = raises or {}
        self.loops = loops or {}
        self.ghost = ghost or {}        # ghost variable name -> type string ('arr[Int,Int]', 'int', ...)
        self.holes = holes
        self.assumed = assumed          # contract of a function that is not verified (listed in evidence)
        self.note = note
        self.result_is = result_is      # expression: result == this (pure function); strongest postcondition
        self.frame = frame
        self.fresh = fresh              # the result is a freshly allocated list/object
        # conditions under which the function is verified; at call sites the postcondition is assumed only when they
        # hold (they are not obligations of the caller): outside them only the type-level contract is assumed
        self.under = list(under)
        # specification functions that stay folded while this function is verified (their applications are compared as terms)
        self.opaque = set(opaque)


class SpecFn:
    def __init__(self, name, node, rec=False, ret='any', reads=(), fuel=1):
        self.name = name
        self.node = node
        self.rec = rec
        self.ret = ret
        self.reads = tuple(reads)
        self.fuel = fuel


SORT_OF = {'str': 'String', 'int': 'Int', 'bool': 'Bool'}


class Engine(ValueOps, ExprOps, CallOps, StmtOps):
    def __init__(self, repo, schema, contracts, spec_funcs=None, invariants=None):
        self.invariants = invariants or {}
        self.repo = repo
        self.schema = schema
        self.contracts = contracts
        self.spec_funcs = spec_funcs or {}
        self.spec_direct = {}       # recursive spec function -> heap keys its body reads ('attr@Family', 'SEQ', 'DICT')
        self.spec_calls = {}        # recursive spec function -> recursive spec functions it applies
        self.spec_seen = set()
        self.spec_gen = 0
        self.spec_stack = []
        self.no_inline = set()
        self.hook_guards = []
        self.init_const_cache = {}
        self.locals_cache = {}
        self.store_count_cache = {}
        self.reset_run()

    def reset_run(self):
        self.st = None
        self.spec_env = {}
        from . import api as _api
        for k, v in _api.SPEC_CONSTS.items():
            try:
                self.spec_env[k] = self.const(v)
            except Exception:
                pass
        self.spec_mode = False
        self.read_log = None
        self.spec_stack = []
        self.old_state = None
        self.ctx_stack = []
        self.loop_ord_stack = []
        self.loop_entry_stack = []
        self.seq_axioms_done = set()
        self.lib_assumptions = set()
        self.inlined = set()
        self.called_contracts = set()
        self.stored = set()
        self.verifying = None
        self.inline_self = False
        self.cur_raises = {}
        self.spec_depth = {}
        self.hole_log = []
        self.guards = []
        self.share_cache = {}
        self.wf_used = set()

    # ------------------------------------------------------------ names (ghost variables)
    def ev_Name(self, node):
        st = self.st
        if node.id in st.env:
            return st.env[node.id]
        if node.id in self.spec_env:
            return self.spec_env[node.id]
        if node.id in st.ghost:
            return st.ghost[node.id]
        fi = self.ctx_stack[-1] if self.ctx_stack else None
        if fi is not None and not self.spec_mode and node.id in self.local_names(fi):
            self.fail('UnboundLocalError', 'local variable %s read before assignment' % node.id, getattr(node, 'lineno', 0))
        return SV('global', const=node.id)

    def local_names(self, fi):
        if fi.key not in self.locals_cache:
            names = set()
            for n in ast.walk(fi.node):
                if isinstance(n, ast.Name) and isinstance(n.ctx, ast.Store):
                    names.add(n.id)
            self.locals_cache[fi.key] = names
        return self.locals_cache[fi.key]

    def getattr(self, base, attr, node=None):
        if base.kind == 'ref':
            classes = self.ref_classes(base.ty)
            if self.attr_type(classes, attr) is None and self.init_const(classes, attr) is None:
                if all(self.repo.find_method(c, attr) for c in classes):
                    return SV('func', extra={'bound': (base, attr)})
        return ExprOps.getattr(self, base, attr, node)

    # ------------------------------------------------------------ spec expressions
    CLAUSE_BUILTINS = {'len', 'isinstance', 'forall', 'exists', 'old', 'implies', 'same', 'is_fresh', 'seq', 'dom', 'vals', 'int_str',
                       'min', 'max', 'str', 'int', 'bool', 'list', 'tuple', 'dict', 'True', 'False', 'None', 'textwrap', 'repr',
                       'result', 'self', 'sorted', 'sum', 'enumerate', 'range', 'zip', 'reversed', 'map', 'abs', 'any', 'all',
                       '_i', 'py_repr'}

    def check_clause_names(self, node, text):
        """every free name of a contract clause must denote something: a variable of the function, a specification function or
        constant, a class.  A clause about a local that no longer exists (renamed by a refactoring) makes the function
        out of reach (undecided) instead of silently comparing against an unknown global."""
        bound = set()
        for n in ast.walk(node):
            if isinstance(n, ast.Lambda):
                bound |= {a.arg for a in n.args.args}
            elif isinstance(n, ast.comprehension):
                bound |= {x.id for x in ast.walk(n.target) if isinstance(x, ast.Name)}
        for n in ast.walk(node):
            if isinstance(n, ast.Name) and isinstance(n.ctx, ast.Load):
                nm = n.id
                if nm in bound or nm in self.st.env or nm in self.spec_env or nm in self.spec_funcs or nm in self.CLAUSE_BUILTINS \
                        or nm in self.st.ghost or self.repo.resolve_class(nm) is not None:
                    continue
                raise Unsupported('the contract clause `%s` mentions `%s`, which is not a variable of the function (renamed or removed?)'
                                  % (text[:80], nm))

    def spec_eval(self, text, env=None):
        node = ast.parse(text.strip(), mode='eval').body
        self.check_clause_names(node, text)
        saved_mode, saved_mute = self.spec_mode, self.st.mute
        self.spec_mode = True
        self.st.mute = True
        try:
            return self.ev(node)
        except PathInfeasible:
            raise Unsupported('ill-typed specification expression: %s' % text)
        finally:
            self.spec_mode = saved_mode
            self.st.mute = saved_mute

    def spec_eval_bool(self, text):
        node = ast.parse(text.strip(), mode='eval').body
        self.check_clause_names(node, text)
        saved_mode, saved_mute = self.spec_mode, self.st.mute
        self.spec_mode = True
        self.st.mute = True
        try:
            c, _, _ = self.cond(node)
            return c
        except PathInfeasible:
            # an ill-typed sub-expression: the clause is undefined here -> unconstrained
            return self.st.decls.const('undef', 'Bool')
        finally:
            self.spec_mode = saved_mode
            self.st.mute = saved_mute

    def spec_builtin(self, name, node):
        st = self.st
        if name == 'old':
            if self.old_state is None:
                raise Unsupported('old() outside a postcondition', node)
            live = self.st
            o = self.old_state
            tmp = o.snapshot()
            tmp.pc = live.pc
            tmp.obligations = live.obligations
            tmp.decisions, tmp.dpos, tmp.dlog, tmp.trace = live.decisions, live.dpos, live.dlog, live.trace
            tmp.env = dict(tmp.env)
            for k, v in live.env.items():
                if getattr(v, 'term', None) in live.decls.bound:        # quantified variables stay visible inside old()
                    tmp.env[k] = v
                elif k in tmp.env and tmp.env[k].kind == 'val' and v.kind in ('list', 'ref', 'str', 'int', 'bool', 'dict') \
                        and not getattr(v, 'owned', False) and v.term is not None:
                    sel = {'list': 'vl', 'ref': 'vr', 'str': 'vs', 'int': 'vi', 'bool': 'vb', 'dict': 'vd'}[v.kind]
                    if v.term == "(%s %s)" % (sel, tmp.env[k].term):
                        tmp.env[k] = v      # the same (never reassigned) value, whose kind a test has settled since
            self.st = tmp
            saved_old = self.old_state
            try:
                v = self.ev(node.args[0])
            finally:
                live.dpos = tmp.dpos
                self.st = live
                self.old_state = saved_old
            return v
        # forall(lambda k: P) / forall(lo, hi, lambda k: P)
        lam = node.args[-1]
        if not isinstance(lam, ast.Lambda):
            raise Unsupported('%s needs a lambda' % name, node)
        bounds = [self.ev(a) for a in node.args[:-1]]
        if len(bounds) == 2 and all(b.kind == 'int' and b.is_const for b in bounds) and bounds[0].const >= bounds[1].const:
            return self.mk_bool(TRUE if name == 'forall' else FALSE)          # empty range
        names = [a.arg for a in lam.args.args]
        bvs = []
        saved = dict(st.env)
        for nmv in names:
            b = st.decls.bound_var(nmv)
            bvs.append(b)
            st.env[nmv] = self.mk_int(b)
        mark = len(st.pc)
        st.decls.bound.extend(bvs)
        try:
            c, _, _ = self.cond(lam.body)
        finally:
            del st.decls.bound[len(st.decls.bound) - len(bvs):]
        st.env = saved
        side = [t for t, k in st.pc[mark:] if k in ('wf', 'def', 'lib')]
        cside = [t for t, k in st.pc[mark:] if k not in ('wf', 'def', 'lib')]
        del st.pc[mark:]
        if cside:
            raise Unsupported('case split inside a quantifier body: %s' % [(t[:120], k) for t, k in st.pc[mark:] if k not in ('wf', 'def', 'lib')][:3] if False else 'case split inside a quantifier body [%s]' % '; '.join(c[:100] for c in cside[:2]), node)
        rng = []
        if len(bounds) == 2:
            for b in bvs:
                rng += [mk_le(bounds[0].term, b), mk_lt(b, bounds[1].term)]
        decl = ' '.join('(%s Int)' % b for b in bvs)
        if side:
            # well-formedness (typing) facts and definitional unfoldings at the bound variable hold universally
            st.assume("(forall (%s) %s)" % (decl, mk_implies(mk_and(*rng), mk_and(*side))), 'wf')
        if name == 'forall':
            # well-formedness facts about the bound variable are assumptions inside the quantifier
            return self.mk_bool("(forall (%s) %s)" % (decl, mk_implies(mk_and(*(rng + side)), c)))
        return self.mk_bool("(exists (%s) %s)" % (decl, mk_and(*(rng + side + [c]))))

    def py_eq(self, a, b):
        if self.spec_mode and a.kind in ('list', 'tuple') and b.kind in ('list', 'tuple') and a.kind != b.kind:
            if a.elems is not None and b.elems is not None:
                if len(a.elems) != len(b.elems):
                    return FALSE
                return mk_and(*[self.py_eq(x, y) for x, y in zip(a.elems, b.elems)])
            return self.seq_eq(a, b)
        if self.spec_mode and a.kind == 'arr' and b.kind == 'arr':
            return mk_eq(a.term, b.term)
        return ValueOps.py_eq(self, a, b)

    # ------------------------------------------------------------ spec functions
    def call_global(self, name, node, args, kwargs):
        if self.spec_mode or True:
            if name == 'dom' and len(args) == 1 and args[0].kind == 'dict':
                dom, _ = self.dict_heaps()
                return SV('arr', mk_select(dom, args[0].term), None, extra=('Val', 'Bool'))
            if name == 'vals' and len(args) == 1 and args[0].kind == 'dict':
                _, val = self.dict_heaps()
                vt = self.dict_val_ty(args[0])
                return SV('arr', mk_select(val, args[0].term), frozenset([('arrval', vt)]), extra=('Val', 'Val'))
            if name == 'implies' and len(args) == 2:
                return self.mk_bool(mk_implies(self.truthy(args[0]), self.truthy(args[1])))
            if name == 'seq' and len(args) == 1:
                v = args[0]
                return SV('tuple', seq=self.seq_of(v), elems=v.elems, ty=frozenset([('tuple', (self.elem_ty(v),))]))
            if name == 'is_fresh' and len(args) == 1 and self.old_state is not None:
                v = args[0]
                if v.kind == 'val' and 'any' in v.ty:
                    return self.mk_bool(mk_le(self.old_state.alloc, "(vr %s)" % v.term))      # total selector (specification)
                if v.kind == 'val':
                    v = self.narrow(v)
                if v.kind in ('ref', 'list', 'dict') and v.term is not None:
                    return self.mk_bool(mk_le(self.old_state.alloc, v.term))
                return self.mk_bool(TRUE)
            if name == 'same' and len(args) == 2:
                return self.mk_bool(mk_eq(self.box(args[0]), self.box(args[1])))
            if name == 'int_str' and len(args) == 1:
                return self.mk_str(self.int_to_str(args[0].term))
        return CallOps.call_global(self, name, node, args, kwargs)

    def call_spec(self, name, args, kwargs, node):
        st = self.st
        sf = self.spec_funcs[name]
        fd = sf.node
        params = [a.arg for a in fd.args.args]
        full = list(args) + [kwargs[p] for p in params[len(args):] if p in kwargs]
        if len(full) < len(params):
            # defaults
            defaults = fd.args.defaults
            for i in range(len(full), len(params)):
                di = i - (len(params) - len(defaults))
                full.append(self.const_eval(defaults[di]))
        saved_mode = self.spec_mode
        self.spec_mode = True
        try:
            if not sf.rec:
                return self.spec_apply(fd, full, sf.ret)
            # the heaps the function depends on are inferred from its body (and from the functions it applies); the
            # application term is indexed by their versions, so one term never stands for values in two heap states
            sig = (name, tuple((a.kind, a.ty) for a in full))
            if sig not in self.spec_seen:
                self.spec_seen.add(sig)
                self.discover_reads(name, fd, full, sf)
            caller = self.spec_stack[-1] if self.spec_stack else None
            if caller is not None and name not in self.spec_calls.setdefault(caller, set()):
                self.spec_calls[caller].add(name)
                self.spec_gen += 1
            reads = self.reads_of(name)
            outer_log = getattr(self, 'read_log', None)
            if outer_log is not None:
                outer_log |= reads
            import hashlib
            vers = ';'.join('%s=%d' % (k, st.version_of(k)) for k in sorted(reads))
            fname = 'sf_%s%s' % (name, ('_h' + hashlib.sha1(vers.encode()).hexdigest()[:8]) if any(st.version_of(k) for k in reads) else '')
            rsort = SORT_OF.get(sf.ret, 'Int' if sf.ret.startswith('seq') else 'Val')
            st.decls.fun(fname, ['Val'] * len(params), rsort)
            app = "(%s %s)" % (fname, ' '.join(self.box(a) for a in full)) if full else fname
            res = self._spec_result(app, sf)
            depth = self.spec_depth.get(name, 0)
            key = ('unfold', app, st.ver)
            if depth < sf.fuel and key not in self.seq_axioms_done and not getattr(self, 'no_unfold', False) \
                    and name not in getattr(self, 'opaque', ()):
                self.seq_axioms_done.add(key)
                self.spec_depth[name] = depth + 1
                self.read_log = set()
                self.spec_stack.append(name)
                try:
                    body = self.spec_apply(fd, full, sf.ret)
                finally:
                    self.spec_stack.pop()
                    self.spec_depth[name] = depth
                    mine = self.read_log
                    self.read_log = outer_log
                self.note_reads(name, mine)
                st.assume(self._spec_eq(res, body, sf), 'def')
            return res
        finally:
            self.spec_mode = saved_mode

    def family_classes(self, fam):
        f = self.repo.family(self.repo.resolve_class(fam) or fam)
        return [c for c in self.repo.classes if self.repo.family(c) == f]

    def note_reads(self, name, keys):
        cur = self.spec_direct.setdefault(name, set())
        if not keys <= cur:
            cur |= keys
            self.spec_gen += 1          # terms named before this point may lack a version index: the path is redone

    def reads_of(self, name):
        """heaps a recursive specification function depends on: its own reads and those of the functions it applies"""
        out, todo, seen = set(), [name], set()
        while todo:
            n = todo.pop()
            if n in seen:
                continue
            seen.add(n)
            out |= self.spec_direct.get(n, set())
            todo += list(self.spec_calls.get(n, ()))
        return out

    def discover_reads(self, name, fd, full, sf):
        """evaluate the body once for its reads only (muted, every assumption and symbol it makes is discarded)"""
        st = self.st
        if name in self.spec_stack and self.spec_stack.count(name) >= 2:
            return
        saved_log, saved_mute, saved_nounfold = getattr(self, 'read_log', None), st.mute, getattr(self, 'no_unfold', False)
        npc, nob = len(st.pc), len(st.obligations)
        dstate = (st.dpos, len(st.dlog), len(st.trace), len(st.decisions))
        saved_env = st.env
        saved_done = set(self.seq_axioms_done)
        saved_depth = dict(self.spec_depth)
        self.read_log = set()
        st.mute = True
        self.no_unfold = True           # nested applications only contribute their (discovered) read sets
        self.spec_stack.append(name)
        try:
            try:
                self.spec_apply(fd, full, sf.ret)
            except (Unsupported, PathInfeasible):
                pass
        finally:
            self.spec_stack.pop()
            mine = self.read_log
            self.read_log = saved_log
            st.mute = saved_mute
            self.no_unfold = saved_nounfold
            del st.pc[npc:]
            del st.obligations[nob:]
            st.dpos = dstate[0]
            del st.dlog[dstate[1]:]
            del st.trace[dstate[2]:]
            del st.decisions[dstate[3]:]
            st.env = saved_env
            self.seq_axioms_done = saved_done
            self.spec_depth = saved_depth
        self.note_reads(name, mine)

    def spec_apply(self, fd, args, ret='any'):
        st = self.st
        saved = st.env
        saved_mute = st.mute
        st.mute = True
        st.env = dict(zip([a.arg for a in fd.args.args], args))
        try:
            return self.spec_body(list(fd.body))
        except Unsupported as e:
            if not getattr(e, 'in_spec', None):
                e.in_spec = fd.name
                e.args = (str(e.args[0]) + ' [in spec %s(%s)]' % (fd.name, ', '.join(getattr(a, 'kind', '?') for a in args)),) + tuple(e.args[1:])
            raise
        except PathInfeasible:
            # ill-typed application: the spec function is unconstrained there
            if ret.startswith('seq'):
                return SV('tuple', seq=st.decls.const('undef', 'Int'), ty=frozenset([('tuple', None)]))
            return self.fresh_typed('undef', ret if ret in ('str', 'int', 'bool') else 'any')
        finally:
            st.env = saved
            st.mute = saved_mute

    def spec_body(self, stmts):
        """functional evaluation of a spec function body: assignments, if/return; branches merged by ite"""
        st = self.st
        for i, s in enumerate(stmts):
            if isinstance(s, ast.Expr) and isinstance(s.value, ast.Constant):
                continue
            if isinstance(s, ast.Return):
                return self.ev(s.value) if s.value is not None else self.const(None)
            if isinstance(s, ast.Assign) and len(s.targets) == 1:
                self.assign(s.targets[0], self.ev(s.value), s)
                continue
            if isinstance(s, ast.If):
                c, rt, rf = self.cond(s.test)
                rest = stmts[i + 1:]
                if c == TRUE:
                    self.apply_refine(rt)
                    return self.spec_body(list(s.body) + rest)
                if c == FALSE:
                    self.apply_refine(rf)
                    return self.spec_body(list(s.orelse) + rest)
                env0 = dict(st.env)
                self.guards.append(c)          # (syntactic: lets narrowing drop the kinds the branch condition excludes)
                try:
                    self.apply_refine(rt)
                    a = self.spec_body(list(s.body) + rest)
                finally:
                    self.guards.pop()
                st.env = dict(env0)
                self.guards.append(mk_not(c))
                try:
                    self.apply_refine(rf)
                    b = self.spec_body(list(s.orelse) + rest)
                finally:
                    self.guards.pop()
                st.env = env0
                return self.merge_ite(c, a, b)
            raise Unsupported('statement %s in a spec function' % type(s).__name__, s)
        raise Unsupported('spec function without return')

    def merge_ite(self, c, a, b):
        if a.kind == b.kind and a.kind in ('str', 'int', 'bool'):
            r = SV(a.kind, mk_ite(c, a.term, b.term), a.ty)
            return r
        if a.kind == b.kind == 'none':
            return a
        if a.kind == b.kind and a.kind in ('tuple', 'list') and not (a.kind == 'list' and not (a.owned and b.owned)):
            if a.elems is not None and b.elems is not None and len(a.elems) == len(b.elems):
                return SV(a.kind, elems=[self.merge_ite(c, x, y) for x, y in zip(a.elems, b.elems)],
                          owned=a.owned, ty=frozenset((a.ty or ANY) | (b.ty or ANY)))
            return SV(a.kind, seq=mk_ite(c, self.seq_of(a), self.seq_of(b)), owned=a.owned,
                      ty=frozenset((a.ty or ANY) | (b.ty or ANY)))
        if a.kind == b.kind == 'arr' and a.extra == b.extra:
            return SV('arr', mk_ite(c, a.term, b.term), a.ty, extra=a.extra)
        ty = frozenset((a.ty or ANY) | (b.ty or ANY))
        return SV('val', mk_ite(c, self.box(a), self.box(b)), ty)

    def ev_IfExp(self, node):
        if self.spec_mode:
            c, rt, rf = self.cond(node.test)
            if c == TRUE:
                return self.ev(node.body)
            if c == FALSE:
                return self.ev(node.orelse)
            saved_env = dict(self.st.env)
            self.guards.append(c)
            try:
                self.apply_refine(rt)          # isinstance / None tests narrow the names they mention in that branch
                a = self.ev(node.body)
                if a.kind == 'val':
                    a = self.narrow_if_determined(a)
            finally:
                self.guards.pop()
                self.st.env = dict(saved_env)
            self.guards.append(mk_not(c))
            try:
                self.apply_refine(rf)
                b = self.ev(node.orelse)
                if b.kind == 'val':
                    b = self.narrow_if_determined(b)
            finally:
                self.guards.pop()
                self.st.env = saved_env
            return self.merge_ite(c, a, b)
        return ExprOps.ev_IfExp(self, node)

    def narrow_if_determined(self, sv):
        if 'any' in sv.ty:
            return sv
        kinds = sorted({atom_kind(a) for a in sv.ty})
        left = self.prune_kinds(sv.term, kinds)
        if len(left) == 1:
            sub = frozenset(a for a in sv.ty if atom_kind(a) == left[0])
            return self._unbox_kind(sv.term, left[0], sub)
        return sv

    def _spec_result(self, app, sf):
        if sf.ret == 'str':
            return self.mk_str(app)
        if sf.ret == 'int':
            return self.mk_int(app)
        if sf.ret == 'bool':
            return self.mk_bool(app)
        if sf.ret == 'seq':
            return SV('tuple', seq=app, ty=frozenset([('tuple', None)]))
        if sf.ret.startswith('seq:'):
            ety = parse_ty(sf.ret[4:])
            self.st.assume(mk_le('0', "(len %s)" % app), 'wf')
            self.assume_elem_types(app, ety)
            return SV('tuple', seq=app, ty=frozenset([('list', ety)]))
        return self.unbox(app, parse_ty(sf.ret))

    def _spec_eq(self, res, body, sf):
        if sf.ret in ('str', 'int', 'bool'):
            if body.kind == 'val':
                body = self.narrow(body)
            if body.kind != sf.ret:
                raise Unsupported('spec function %s returns %s, declared %s' % (sf.name, body.kind, sf.ret))
            return mk_eq(res.term, body.term)
        if sf.ret.startswith('seq'):
            return mk_eq(res.seq, self.seq_of(body))
        return mk_eq(self.box(res), self.box(body))

    # ------------------------------------------------------------ format hooks (ghost logging of holes)
    def format_hook(self, template, holes, node):
        import re
        st = self.st
        fi = self.ctx_stack[-1] if self.ctx_stack else None
        con = self.contracts.get(fi.key) if fi is not None else None
        specs = list(con.holes or []) if con is not None else []
        matched = False
        byname = {}
        for idx, (field, raw, sv) in enumerate(holes):
            byname[field] = (raw, sv)
            byname.setdefault(str(idx), (raw, sv))
        for hs in specs:
            if not re.search(hs['match'], template):
                continue
            matched = True
            raw, sv = byname[hs['key']]
            if raw.kind != 'int':
                raise Unsupported('logged hole %s is not an int' % hs['key'], node)
            self.hole_log.append((fi.key, hs['match'], raw.term))
            if 'count' in hs:
                g = self.ghost_var(hs['count'], 'arr[Int,Int]')
                g2 = SV('arr', mk_store(g.term, raw.term, mk_add(mk_select(g.term, raw.term), '1')), g.ty, extra=g.extra)
                st.ghost[hs['count']] = g2
            for gname, expr in hs.get('set', {}).items():
                g = self.ghost_var(gname, 'arr[Int,Val]')
                if expr.startswith('hole:'):
                    val = byname[expr[5:]][0]
                else:
                    val = self.spec_eval(expr)
                st.ghost[gname] = SV('arr', mk_store(g.term, raw.term, self.box(val)), g.ty, extra=g.extra)
            break       # first matching annotation wins
        for guard in self.hook_guards:
            if re.search(guard, template) and not matched:
                raise Unsupported('format template matching %r has no hole annotation in the contract of %s'
                                  % (guard, fi.key if fi else '?'), node)

    def ghost_var(self, name, ty):
        st = self.st
        if name not in st.ghost:
            st.ghost[name] = self.fresh_typed('g_' + name, ty)
        return st.ghost[name]

    # ------------------------------------------------------------ contracts at call sites
    def bind_params(self, fi, selfsv, args, kwargs, node):
        argspec = fi.node.args
        params = [a.arg for a in argspec.posonlyargs + argspec.args]
        allargs = list(args)
        if fi.kind in ('method', 'classmethod'):
            allargs = [selfsv] + allargs
        env = {}
        for p, a in zip(params, allargs):
            env[p] = a
        defaults = argspec.defaults
        for i, p in enumerate(params[len(allargs):], start=len(allargs)):
            if p in kwargs:
                env[p] = kwargs[p]
            else:
                di = i - (len(params) - len(defaults))
                if di < 0:
                    raise Unsupported('missing argument %s' % p, node)
                env[p] = self.const_eval(defaults[di])
        return env

    def havoc_modifies(self, items, env):
        """items: 'self.attr', 'dict(self.x)', 'list(expr)', 'ghost:name', 'heap:attr', 'alloc'"""
        st = self.st
        saved = st.env
        st.env = env
        try:
            for it in items:
                if ' if ' in it:
                    # guarded item `<item> if <condition>`: the callee changes it only when the condition holds
                    it, _, guard = it.partition(' if ')
                    g = self.spec_eval_bool(guard.strip())
                    if g == FALSE:
                        continue
                    if g != TRUE:
                        if st.decide(2, 'modifies-if') == 1:
                            st.assume(mk_not(g), 'pc')
                            continue
                        st.assume(g, 'pc')
                    it = it.strip()
                if it == 'alloc':
                    self.havoc_heap(['alloc'])
                elif it.startswith('ghost:'):
                    gname, _, gty = it[6:].partition(':')
                    self.ghost_var(gname, gty or 'arr[Int,Int]')
                    self.havoc_heap(['ghost:' + gname])
                elif it.startswith('heap:') and '@' in it:
                    # the attribute may change on objects of one class family only (e.g. the parent links of Arguments)
                    attr, fam = it[5:].split('@', 1)
                    old_arr = st.heap_arr(attr)
                    new_arr = st.decls.const('H_' + attr, '(Array Int Val)')
                    st.heap[attr] = new_arr
                    st.bump(attr, [self.repo.family(self.repo.resolve_class(fam) or fam)])
                    st.assume("(forall ((r Int)) (! (=> (not %s) (= (select %s r) (select %s r))) :pattern ((select %s r))))"
                              % (self.cls_in('r', self.family_classes(fam)), new_arr, old_arr, new_arr), 'wf')
                elif it.startswith('heap:'):
                    self.havoc_heap([it[5:]])
                elif it.startswith('new:'):
                    # changes only on objects / lists allocated since the function was entered (everything older is kept)
                    attr = it[4:]
                    if attr == 'SEQ':
                        old_arr = self.seqheap()
                        new_arr = st.decls.const('SEQ', '(Array Int Int)')
                        st.seqh = new_arr
                        st.bump('SEQ')
                        st.assume("(forall ((r Int)) (! (=> (< r %s) (= (select %s r) (select %s r))) :pattern ((select %s r))))"
                                  % (self.alloc0, new_arr, old_arr, new_arr), 'wf')
                    else:
                        old_arr = st.heap_arr(attr)
                        self.havoc_heap([attr])
                        st.assume("(forall ((r Int)) (! (=> (< r %s) (= (select %s r) (select %s r))) :pattern ((select %s r))))"
                                  % (self.alloc0, st.heap[attr], old_arr, st.heap[attr]), 'wf')
                elif it.startswith('fresh:'):
                    # the attribute changes on objects allocated since (by the loop / callee) only: older objects keep it
                    attr = it[6:]
                    old_arr = st.heap_arr(attr)
                    self.havoc_heap([attr])
                    st.assume("(forall ((r Int)) (! (=> (< r %s) (= (select %s r) (select %s r))) :pattern ((select %s r))))"
                              % (st.alloc, st.heap[attr], old_arr, st.heap[attr]), 'wf')
                elif it.startswith('dict(') and it.endswith(')'):
                    d = self.spec_eval(it[5:-1])
                    dom, val = self.dict_heaps()
                    st.ddom = mk_store(dom, d.term, st.decls.const('dd', '(Array Val Bool)'))
                    st.dval = mk_store(val, d.term, st.decls.const('dv', '(Array Val Val)'))
                    st.bump('DICT')
                elif it.startswith('list(') and it.endswith(')'):
                    l = self.spec_eval(it[5:-1])
                    if l.kind == 'val':
                        l = self.narrow(l)
                    if l.kind == 'tuple':
                        continue                     # an immutable sequence cannot be modified
                    if l.kind == 'list' and l.owned:
                        self.materialise(l)          # a local list handed to the callee: it gets an identity
                    if l.term is None:
                        raise Unsupported('modifies item %s does not denote a heap list' % it)
                    q = st.decls.const('qh', 'Int')
                    st.assume(mk_le('0', "(len %s)" % q), 'wf')
                    st.seqh = mk_store(self.seqheap(), l.term, q)
                    st.bump('SEQ')
                else:
                    node = ast.parse(it, mode='eval').body
                    if not isinstance(node, ast.Attribute):
                        raise Unsupported('modifies item %s' % it)
                    obj = self.spec_eval(ast.unparse(node.value))
                    classes = self.ref_classes(obj.ty)
                    ty = self.attr_type(classes, node.attr)
                    fresh = st.decls.const('hv_' + node.attr, 'Val')
                    st.heap[node.attr] = mk_store(st.heap_arr(node.attr), obj.term, fresh)
                    st.bump(node.attr, self.families_of(classes))
                    if ty is not None:
                        self.unbox(fresh, ty)
        finally:
            st.env = saved

    def apply_contract(self, con, fi, selfsv, args, kwargs, node):
        st = self.st
        self.called_contracts.add(con.key)
        env = self.bind_params(fi, selfsv, args, kwargs, node)
        saved_env = st.env
        for pname, pty in con.params.items():
            # an argument of union type is read at the kind the callee's parameter type declares (typed precondition)
            a = env.get(pname)
            if a is not None and a.kind == 'val' and 'any' not in a.ty and isinstance(pty, str):
                want = {atom_kind(x) for x in parse_ty(pty)}
                if len(want) == 1 and 'any' not in want and len({atom_kind(x) for x in a.ty}) > 1:
                    a2 = self.narrow(a)
                    if a2.kind not in want:
                        st.oblige(FALSE, 'argument %s of %s has kind %s, the contract expects %s' % (pname, con.key, a2.kind, pty),
                                  getattr(node, 'lineno', 0), kind='requires')
                        raise PathInfeasible()
                    env[pname] = a2
        for it in con.modifies:
            # a local (pure) list that the callee may modify gets its heap identity before the pre-state is recorded
            if it.startswith('list(') and it[5:-1] in env and env[it[5:-1]].kind == 'list' and env[it[5:-1]].owned:
                self.materialise(env[it[5:-1]])
        pre = st.snapshot()
        pre.env = dict(env)
        ln = getattr(node, 'lineno', 0)
        st.env = dict(env)
        saved_old = self.old_state
        try:
            for r in con.requires:
                if self.is_class_invariant(selfsv, r):
                    # a class invariant of (every possible class of) the receiver: assumed well-formedness
                    self.wf_used.add('%s: %s' % (fi.cls, r))
                    continue
                st.oblige(self.spec_eval_bool(r), 'precondition of %s: %s' % (con.key, r), ln, kind='requires')
            # a conditional contract's result is named by its specification term; its definition is unfolded where the
            # caller's own specification mentions it, not here (keeps the VCs of callers that do not care about it small)
            self.no_unfold = bool(con.under)
            under = mk_and(*[self.spec_eval_bool(u) for u in con.under]) if con.under else TRUE
            if con.under:
                self.wf_used.add('%s: verified under [%s]; outside it only its type-level contract is assumed'
                                 % (con.key, ' and '.join(con.under)))
            for exc, when in con.raises.items():
                if exc in self.cur_raises:
                    continue                  # the caller's contract lets it propagate
                if isinstance(when, str):
                    st.oblige(mk_not(mk_and(under, self.spec_eval_bool(when))), '%s may raise %s when: %s' % (con.key, exc, when), ln, kind='requires')
                else:
                    self.wf_used.add('%s may raise %s (unconditional raises clause); propagation into %s not tracked'
                                      % (con.key, exc, self.verifying))
            self.havoc_modifies(con.modifies, env)
            self.old_state = pre
            if con.result_is is not None:
                res = self.spec_eval(con.result_is)
                if under != TRUE:
                    res = self.cond_result(under, res, fi.node.name)
            elif con.returns == 'none':
                res = self.const(None)
            else:
                rty = con.returns(env) if callable(con.returns) else con.returns
                res = self.fresh_typed('res_' + fi.node.name, rty)
                if con.fresh and res.kind == 'list':
                    q = mk_select(self.seqheap(), res.term)
                    res = SV('list', seq=q, owned=True, ty=res.ty)
            res = self.share(res, 'res')
            st.env['result'] = res
            for e in con.ensures:
                st.assume(mk_implies(under, self.spec_eval_bool(e)), 'ensures')
        finally:
            self.no_unfold = False
            self.old_state = saved_old
            st.env = saved_env
        return res

    def cond_result(self, under, val, name):
        """a fresh value of val's kind that equals val when `under` holds"""
        st = self.st
        if val.kind in ('str', 'int', 'bool'):
            c = st.decls.const('res_' + name, {'str': 'String', 'int': 'Int', 'bool': 'Bool'}[val.kind])
            st.assume(mk_implies(under, mk_eq(c, val.term)), 'ensures')
            return SV(val.kind, c, val.ty)
        if val.kind == 'tuple' and val.elems is not None:
            return SV('tuple', elems=[self.cond_result(under, e, name) for e in val.elems], ty=val.ty)
        if val.kind == 'val':
            c = st.decls.const('res_' + name, 'Val')
            st.assume(mk_implies(under, mk_eq(c, val.term)), 'ensures')
            return self.unbox(c, val.ty)
        raise Unsupported('conditional contract (under=...) with a result of kind %s' % val.kind)

    def is_class_invariant(self, selfsv, text):
        if selfsv is None or selfsv.kind != 'ref' or not self.invariants:
            return False
        for c in self.ref_classes(selfsv.ty):
            mine = []
            for m in self.repo.mro(c):
                mine += self.invariants.get(m, [])
            if text not in mine:
                return False
        return True

    def fresh_typed(self, name, ty):
        st = self.st
        ty = parse_ty(ty)
        ks = {atom_kind(a) for a in ty}
        if ks == {'str'}:
            return self.mk_str(st.decls.const(name, 'String'))
        if ks == {'int'}:
            return self.mk_int(st.decls.const(name, 'Int'))
        if ks == {'bool'}:
            return self.mk_bool(st.decls.const(name, 'Bool'))
        if ks == {'arr'}:
            a = next(iter(ty))
            vs = a[2]
            aty = None
            if vs.startswith('Val:'):
                aty = frozenset([('arrval', parse_ty(vs[4:]))])
                vs = 'Val'
            return SV('arr', st.decls.const(name, '(Array %s %s)' % (a[1], vs)), aty, extra=(a[1], vs))
        t = st.decls.const(name, 'Val')
        return self.unbox(t, ty)

    # ------------------------------------------------------------ verification of one function
    def initial_state(self, con, fi, decls):
        st = State(decls)
        self.st = st
        st.alloc = decls.const('alloc', 'Int')
        self.alloc0 = st.alloc
        self.seqheap()
        self.dict_heaps()
        params = fi.params
        for p in params:
            ty = con.params.get(p)
            if ty is None:
                if p == 'self' and fi.cls:
                    ty = 'ref:' + fi.cls
                elif p == 'cls':
                    st.env[p] = SV('global', const=fi.cls)
                    continue
                else:
                    raise Unsupported('no type for parameter %s of %s' % (p, fi.key))
            st.env[p] = self.fresh_typed('p_' + p, ty)
        for g, gty in con.ghost.items():
            st.ghost[g] = self.fresh_typed('g_' + g, gty)
        return st

    def verify_function(self, key, max_paths=4000):
        """-> FunctionResult with all obligations of all paths (not yet discharged).
        The read sets of the recursive specification functions are inferred while paths are generated; terms named before
        a set grew may lack a version index, so the whole function is regenerated until the sets are stable."""
        for attempt in range(8):
            gen0 = self.spec_gen
            res = self._verify_function(key, max_paths)
            if self.spec_gen == gen0:
                return res
        res.unsupported = res.unsupported or 'read sets of the specification functions did not stabilise'
        return res

    def _verify_function(self, key, max_paths=4000):
        fi = self.repo.functions[key]
        con = self.contracts[key]
        res = FunctionResult(key, fi)
        import itertools
        from . import state as _state
        _state._counter = itertools.count()     # deterministic symbol names: identical code => identical VC text
        stack = [[]]
        seen_paths = 0
        t0 = time.time()
        while stack:
            prefix = stack.pop()
            seen_paths += 1
            if seen_paths > max_paths:
                res.unsupported = 'more than %d paths' % max_paths
                break
            self.reset_run()
            self.verifying = key
            self.cur_raises = con.raises
            self.opaque = con.opaque
            decls = Decls()
            try:
                st = self.initial_state(con, fi, decls)
                st.decisions = list(prefix)
                for r in list(con.requires) + list(con.under):
                    st.assume(self.spec_eval_bool(r), 'requires')
                pre = st.snapshot()
                pre.env = dict(st.env)
                pre.ghost = dict(st.ghost)
                self.old_state = pre
                self.pre_state = pre
                self.ctx_stack = [fi]
                outcome = self.run_body(fi, con, st, pre)
            except Unsupported as e:
                ln = getattr(e.node, 'lineno', '?')
                res.unsupported = '%s (line %s of %s)' % (e, ln, fi.key)
                res.unsupported_trace = traceback.format_exc()
                break
            st = self.st
            # schedule alternatives
            taken = st.decisions[:st.dpos]
            for k in range(len(prefix), len(taken)):
                for alt in range(1, st.dlog[k]):
                    stack.append(taken[:k] + [alt])
            p = PathResult(list(taken), list(st.trace), outcome, st.obligations, list(st.pc), decls)
            p.lib = set(self.lib_assumptions)
            p.inlined = set(self.inlined)
            p.called = set(self.called_contracts)
            p.holes = list(self.hole_log)
            p.wf_used = set(self.wf_used)
            res.paths.append(p)
        res.gen_time = time.time() - t0
        return res

    def run_body(self, fi, con, st, pre):
        outcome = 'return'
        try:
            try:
                self.exec_block(fi.node.body)
                result = self.const(None)
            except Return as r:
                result = r.value
            self.check_post(fi, con, result, pre)
        except PathEnd as e:
            outcome = e.why
        except PathInfeasible:
            outcome = 'error-obligation'
        except (Break, Continue):
            raise Unsupported('break/continue outside loop')
        except (Raised, RaisedExc) as r:
            outcome = 'raise ' + r.exc
            spec = con.raises.get(r.exc)
            if r.exc not in con.raises:
                self.st.oblige(FALSE, 'unexpected %s raised' % r.exc, r.lineno, kind='raises')
            else:
                when = spec if isinstance(spec, str) else None
                if when:
                    self.check_in_pre(when, pre, 'raises %s only when: %s' % (r.exc, when), r.lineno)
        return outcome

    def check_in_pre(self, text, pre, note, lineno):
        st = self.st
        live_env = st.env
        st.env = dict(pre.env)
        saved = (st.heap, st.seqh, st.ddom, st.dval, st.ghost)
        st.heap, st.seqh, st.ddom, st.dval, st.ghost = dict(pre.heap), pre.seqh, pre.ddom, pre.dval, dict(pre.ghost)
        try:
            st.oblige(self.spec_eval_bool(text), note, lineno, kind='raises')
        finally:
            st.heap, st.seqh, st.ddom, st.dval, st.ghost = saved
            st.env = live_env

    def check_post(self, fi, con, result, pre):
        st = self.st
        st.env = dict(pre.env)
        st.env['result'] = result
        self.old_state = pre
        if con.result_is is not None:
            expected = self.spec_eval(con.result_is)
            st.oblige(self.py_eq_spec(result, expected), 'result == %s' % con.result_is, fi.node.lineno, kind='ensures')
        for e in con.ensures:
            st.oblige(self.spec_eval_bool(e), 'ensures %s' % e, fi.node.lineno, kind='ensures')
        if not con.frame:
            self.wf_used.add('%s: frame NOT checked (the contract says frame=False): that it changes nothing outside its modifies is assumed'
                             % con.key)
        if any(w is True for w in con.raises.values()):
            self.wf_used.add('%s: %s may escape at any point (partial correctness with respect to these exceptions: the postcondition '
                             'is about normal returns)' % (con.key, ', '.join(k for k, w in con.raises.items() if w is True)))
        if con.frame:
            self.check_frame(fi, con, pre)

    def py_eq_spec(self, a, b):
        saved = self.spec_mode
        self.spec_mode = True
        try:
            return self.py_eq(a, b)
        finally:
            self.spec_mode = saved

    def check_frame(self, fi, con, pre):
        """everything not listed in modifies keeps its value on objects that existed before the call"""
        st = self.st
        mod_attr_objs = {}
        whole = set()
        env_saved = st.env
        famwhole = {}
        mods = [it.partition(' if ')[0].strip() for it in con.modifies]      # a guarded item may change whenever its guard holds
        for it in mods:
            if it.startswith('heap:') and '@' in it:
                a, f = it[5:].split('@', 1)
                famwhole.setdefault(a, []).append(f)
            elif it.startswith('heap:'):
                whole.add(it[5:])
            elif it.startswith('dict(') or it.startswith('list(') or it.startswith('ghost:') or it.startswith('fresh:') or it.startswith('new:') or it == 'alloc':
                continue
            else:
                node = ast.parse(it, mode='eval').body
                st.env = dict(pre.env)
                obj = self.spec_builtin_old_eval(ast.unparse(node.value), pre)
                st.env = env_saved
                mod_attr_objs.setdefault(node.attr, []).append(obj.term)
        for attr, arr in st.heap.items():
            old = pre.heap.get(attr, st.decls.base_heap.get(attr))     # an attribute first touched in the body: its entry value is the base array
            if old is None or old == arr or attr in whole:
                continue
            excl = [mk_not(mk_eq('r', o)) for o in mod_attr_objs.get(attr, [])]
            excl += [mk_not(self.cls_in('r', self.family_classes(f))) for f in famwhole.get(attr, [])]
            goal = "(forall ((r Int)) %s)" % mk_implies(mk_and(mk_lt('r', pre.alloc), *excl),
                                                       mk_eq(mk_select(arr, 'r'), mk_select(old, 'r')))
            st.oblige(goal, 'frame: attribute %s unchanged outside modifies' % attr, fi.node.lineno, kind='ensures')
        pre_seqh = pre.seqh if pre.seqh is not None else getattr(st.decls, 'base_seq', None)
        if st.seqh is not None and pre_seqh is not None and st.seqh != pre_seqh:
            lists = [x for x in mods if x.startswith('list(')]
            excl = []
            for x in lists:
                l = self.spec_builtin_old_eval(x[5:-1], pre)
                if l.kind == 'val':
                    l = self.narrow(l)
                if l.kind != 'list' or l.term is None:
                    continue                         # tuples are immutable; a local list has no pre-state identity
                excl.append(mk_not(mk_eq('r', l.term)))
            goal = "(forall ((r Int)) %s)" % mk_implies(mk_and(mk_lt('r', pre.alloc), *excl),
                                                       mk_eq(mk_select(st.seqh, 'r'), mk_select(pre_seqh, 'r')))
            st.oblige(goal, 'frame: lists unchanged outside modifies', fi.node.lineno, kind='ensures')
        pre_ddom = pre.ddom if pre.ddom is not None else getattr(st.decls, 'base_ddom', None)
        pre_dval = pre.dval if pre.dval is not None else getattr(st.decls, 'base_dval', None)
        if st.ddom is not None and pre_ddom is not None and (st.ddom != pre_ddom or st.dval != pre_dval):
            dicts = [x for x in mods if x.startswith('dict(')]
            excl = []
            for x in dicts:
                d = self.spec_builtin_old_eval(x[5:-1], pre)
                excl.append(mk_not(mk_eq('r', d.term)))
            goal = "(forall ((r Int)) %s)" % mk_implies(
                mk_and(mk_lt('r', pre.alloc), *excl),
                mk_and(mk_eq(mk_select(st.ddom, 'r'), mk_select(pre_ddom, 'r')),
                       mk_eq(mk_select(st.dval, 'r'), mk_select(pre_dval, 'r'))))
            st.oblige(goal, 'frame: dicts unchanged outside modifies', fi.node.lineno, kind='ensures')

    def spec_builtin_old_eval(self, text, pre):
        live = self.st
        tmp = pre.snapshot()
        tmp.pc = live.pc
        tmp.obligations = live.obligations
        tmp.decisions, tmp.dpos, tmp.dlog, tmp.trace = live.decisions, live.dpos, live.dlog, live.trace
        self.st = tmp
        try:
            return self.spec_eval(text)
        finally:
            live.dpos = tmp.dpos
            self.st = live


class PathResult:
    def __init__(self, decisions, trace, outcome, obligations, pc, decls):
        self.decisions = decisions
        self.trace = trace
        self.outcome = outcome
        self.obligations = obligations
        self.pc = pc
        self.decls = decls
        self.feasible = None


class FunctionResult:
    def __init__(self, key, fi):
        self.key = key
        self.fi = fi
        self.paths = []
        self.unsupported = None
        self.unsupported_trace = None
        self.gen_time = 0


def _sjoin_terms(text):
    out = []
    i = 0
    while True:
        i = text.find('(sjoin ', i)
        if i < 0:
            return out
        d = 0
        j = i
        instr = False
        while j < len(text):
            c = text[j]
            if c == '"':
                instr = not instr
            elif not instr:
                if c == '(':
                    d += 1
                elif c == ')':
                    d -= 1
                    if d == 0:
                        break
            j += 1
        t = text[i:j + 1]
        if t not in out:
            out.append(t)
        i += 7


def sjoin_extensionality(assumptions, goal):
    """join is a function of the sequence contents: instances for every pair of joins with the same separator"""
    text = '\n'.join(a for a, _ in assumptions) + '\n' + (goal or '')
    terms = _sjoin_terms(text)
    by_sep = {}
    for t in terms:
        parts = smt.split_top(t[7:-1])
        if len(parts) == 2 and 'cj!' not in parts[1] and not any(b in parts[1] for b in ('$J',)):
            by_sep.setdefault(parts[0], []).append(parts[1])
    out = []
    for sep, qs in by_sep.items():
        qs = [q for q in qs if not _has_bound(q, text)]
        for a in range(len(qs)):
            for b in range(a + 1, len(qs)):
                qa, qb = qs[a], qs[b]
                out.append("(=> (and (= (len %s) (len %s)) (forall ((xj Int)) (=> (and (<= 0 xj) (< xj (len %s))) (= (at %s xj) (at %s xj))))) (= (sjoin %s %s) (sjoin %s %s)))"
                           % (qa, qb, qa, qa, qb, sep, qa, sep, qb))
    return out[:40]


def _has_bound(q, text):
    import re
    for m in re.finditer(r'[A-Za-z_]+![0-9]+', q):
        v = m.group(0)
        if ('((%s Int)' % v) in text or ('(%s Int)' % v) in text:
            return True
    return False


def smt_text(decls, assumptions, goal):
    lines = [smt.PREAMBLE, decls.text()]
    for a, _ in assumptions:
        lines.append('(assert %s)' % a)
    if goal is not None and '(sjoin ' in goal:
        for ax in sjoin_extensionality(assumptions, goal):
            lines.append('(assert %s)' % ax)
    if goal is not None:
        lines.append('(assert (not %s))' % goal)
    lines.append('(check-sat)')
    return '\n'.join(lines) + '\n'
