"""SMT-LIB2 term layer, solver portfolio and model parsing for pyvc.

Terms are plain s-expression strings; sorts are tracked by the caller.
Everything is emitted as SMT-LIB 2.6 text and sent to the solver CLIs
(z3-new 5.x, cvc5 1.0.x, /usr/bin/z3 4.8) -- see DESIGN.md section M3.
"""
import os
import re
import shutil
import subprocess
import tempfile
import time
from concurrent.futures import ThreadPoolExecutor

PREAMBLE = """(set-logic ALL)
(declare-datatypes ((Val 0)) (((VNone) (VB (vb Bool)) (VI (vi Int)) (VS (vs String)) (VRef (vr Int)) (VLst (vl Int)) (VTup (vt Int)) (VDct (vd Int)))))
(declare-fun len (Int) Int)
(declare-fun at (Int Int) Val)
(declare-fun cls (Int) Int)
"""

TRUE, FALSE = "true", "false"


# ---------------------------------------------------------------- literals
def str_lit(s):
    out = []
    for ch in s:
        o = ord(ch)
        if ch == '"':
            out.append('""')
        elif ch == '\\':
            out.append('\\u{5c}')
        elif 0x20 <= o <= 0x7e:
            out.append(ch)
        else:
            out.append('\\u{%x}' % o)
    return '"' + ''.join(out) + '"'


def int_lit(n):
    return str(n) if n >= 0 else "(- %d)" % (-n)


def is_str_lit(t):
    return isinstance(t, str) and len(t) >= 2 and t[0] == '"' and t[-1] == '"' and _lit_ok(t)


def _lit_ok(t):
    body = t[1:-1]
    return '"' not in body.replace('""', '')


def str_lit_value(t):
    body = t[1:-1].replace('""', '"')
    return re.sub(r'\\u\{([0-9a-fA-F]+)\}', lambda m: chr(int(m.group(1), 16)), body)


def is_int_lit(t):
    return bool(re.fullmatch(r'\d+|\(- \d+\)', t))


def int_lit_value(t):
    return int(t) if t[0] != '(' else -int(t[3:-1])


# ---------------------------------------------------------------- constructors with light simplification
def app(f, *args):
    return "(%s %s)" % (f, " ".join(args)) if args else f


def mk_not(a):
    if a == TRUE:
        return FALSE
    if a == FALSE:
        return TRUE
    if a.startswith("(not ") and _balanced(a[5:-1]):
        return a[5:-1]
    return "(not %s)" % a


_BAL_CACHE = {}


def _balanced(s):
    r = _BAL_CACHE.get(s)
    if r is None:
        r = _balanced_uncached(s)
        if len(_BAL_CACHE) > 50000:
            _BAL_CACHE.clear()
        _BAL_CACHE[s] = r
    return r


_SPECIAL = re.compile(r'[()"]')


def _balanced_uncached(s):
    d = 0
    instr = False
    last = len(s) - 1
    for m in _SPECIAL.finditer(s):
        ch = m.group()
        if ch == '"':
            instr = not instr
        elif instr:
            continue
        elif ch == '(':
            d += 1
        else:
            d -= 1
            if d == 0 and m.start() != last:
                return False
            if d < 0:
                return False
    return d == 0


def _balanced_slow(s):
    d = 0
    instr = False
    for i, ch in enumerate(s):
        if ch == '"':
            instr = not instr
        if instr:
            continue
        if ch == '(':
            d += 1
        elif ch == ')':
            d -= 1
            if d == 0 and i != len(s) - 1:
                return False
            if d < 0:
                return False
    return d == 0


def mk_and(*xs):
    flat = []
    for x in xs:
        if x == TRUE:
            continue
        if x == FALSE:
            return FALSE
        if x not in flat:
            flat.append(x)
    if not flat:
        return TRUE
    if len(flat) == 1:
        return flat[0]
    return "(and %s)" % " ".join(flat)


def mk_or(*xs):
    flat = []
    for x in xs:
        if x == FALSE:
            continue
        if x == TRUE:
            return TRUE
        if x not in flat:
            flat.append(x)
    if not flat:
        return FALSE
    if len(flat) == 1:
        return flat[0]
    return "(or %s)" % " ".join(flat)


def mk_implies(a, b):
    if a == TRUE:
        return b
    if a == FALSE or b == TRUE:
        return TRUE
    return "(=> %s %s)" % (a, b)


def mk_ite(c, a, b):
    if c == TRUE:
        return a
    if c == FALSE:
        return b
    if a == b:
        return a
    return "(ite %s %s %s)" % (c, a, b)


def mk_eq(a, b):
    if a == b:
        return TRUE
    if is_str_lit(a) and is_str_lit(b):
        return TRUE if str_lit_value(a) == str_lit_value(b) else FALSE
    if is_int_lit(a) and is_int_lit(b):
        return TRUE if int_lit_value(a) == int_lit_value(b) else FALSE
    if a in (TRUE, FALSE) and b in (TRUE, FALSE):
        return TRUE if a == b else FALSE
    if b == TRUE:
        return a
    if a == TRUE:
        return b
    if b == FALSE:
        return mk_not(a)
    if a == FALSE:
        return mk_not(b)
    return "(= %s %s)" % (a, b)


def mk_concat(parts):
    out = []
    for p in parts:
        if p == '""':
            continue
        if is_str_lit(p) and out and is_str_lit(out[-1]):
            out[-1] = str_lit(str_lit_value(out[-1]) + str_lit_value(p))
        elif p.startswith("(str.++ ") and _balanced(p):
            for q in split_top(p[8:-1]):
                if is_str_lit(q) and out and is_str_lit(out[-1]):
                    out[-1] = str_lit(str_lit_value(out[-1]) + str_lit_value(q))
                else:
                    out.append(q)
        else:
            out.append(p)
    if not out:
        return '""'
    if len(out) == 1:
        return out[0]
    return "(str.++ %s)" % " ".join(out)


def mk_add(a, b):
    if is_int_lit(a) and is_int_lit(b):
        return int_lit(int_lit_value(a) + int_lit_value(b))
    if is_int_lit(b) and int_lit_value(b) == 0:
        return a
    if is_int_lit(a) and int_lit_value(a) == 0:
        return b
    # (+ (+ x c1) c2) -> (+ x c1+c2)
    if is_int_lit(b):
        m = re.fullmatch(r'\(\+ (.*) (\d+|\(- \d+\))\)', a)
        if m and _balanced_term(m.group(1)):
            c = int_lit_value(m.group(2)) + int_lit_value(b)
            return mk_add(m.group(1), int_lit(c))
    return "(+ %s %s)" % (a, b)


def _balanced_term(s):
    try:
        return len(split_top(s)) == 1
    except Exception:
        return False


def mk_sub(a, b):
    if is_int_lit(b):
        return mk_add(a, int_lit(-int_lit_value(b)))
    if a == b:
        return "0"
    return "(- %s %s)" % (a, b)


def mk_lt(a, b):
    if is_int_lit(a) and is_int_lit(b):
        return TRUE if int_lit_value(a) < int_lit_value(b) else FALSE
    return "(< %s %s)" % (a, b)


def mk_le(a, b):
    if is_int_lit(a) and is_int_lit(b):
        return TRUE if int_lit_value(a) <= int_lit_value(b) else FALSE
    if a == b:
        return TRUE
    return "(<= %s %s)" % (a, b)


def mk_select(arr, i):
    # read-over-write on syntactic stores with literal / syntactically equal indices
    while arr.startswith("(store "):
        parts = split_top(arr[7:-1])
        if len(parts) != 3:
            break
        base, j, v = parts
        e = mk_eq(i, j)
        if e == TRUE:
            return v
        if e == FALSE:
            arr = base
            continue
        break
    return "(select %s %s)" % (arr, i)


def mk_store(arr, i, v):
    return "(store %s %s %s)" % (arr, i, v)


_SPLIT_CACHE = {}


def split_top(s):
    """split a space separated sequence of s-expressions at top level"""
    r = _SPLIT_CACHE.get(s)
    if r is None:
        r = tuple(_split_top_uncached(s))
        if len(_SPLIT_CACHE) > 50000:
            _SPLIT_CACHE.clear()
        _SPLIT_CACHE[s] = r
    return list(r)


def _split_top_uncached(s):
    out = []
    i, n = 0, len(s)
    while i < n:
        ch = s[i]
        if ch.isspace():
            i += 1
            continue
        if ch == '(':
            d = 0
            j = n
            instr = False
            for m in _SPECIAL.finditer(s, i):
                c = m.group()
                if c == '"':
                    instr = not instr
                elif not instr:
                    if c == '(':
                        d += 1
                    else:
                        d -= 1
                        if d == 0:
                            j = m.start()
                            break
            out.append(s[i:j + 1])
            i = j + 1
        elif ch == '"':
            j = i + 1
            while j < n:
                if s[j] == '"':
                    if j + 1 < n and s[j + 1] == '"':
                        j += 2
                        continue
                    break
                j += 1
            out.append(s[i:j + 1])
            i = j + 1
        else:
            j = i
            while j < n and not s[j].isspace() and s[j] not in '()':
                j += 1
            out.append(s[i:j])
            i = j
    return out


# ---------------------------------------------------------------- s-expression parsing (for models)
def parse_sexpr(s):
    toks = split_top(s)
    return [_parse_one(t) for t in toks]


def _parse_one(t):
    if t.startswith('(') and t.endswith(')'):
        return [_parse_one(x) for x in split_top(t[1:-1])]
    return t


def value_of(sx):
    """convert a parsed model value to a python value: ('VS','abc') style tuples for Val"""
    if isinstance(sx, str):
        if sx == 'true':
            return True
        if sx == 'false':
            return False
        if re.fullmatch(r'-?\d+', sx):
            return int(sx)
        if sx.startswith('"'):
            return _decode_model_string(sx)
        if sx == 'VNone':
            return ('VNone',)
        return sx
    if len(sx) == 2 and sx[0] == '-':
        return -value_of(sx[1])
    if len(sx) == 2 and sx[0] in ('VB', 'VI', 'VS', 'VRef', 'VLst', 'VTup', 'VDct'):
        return (sx[0], value_of(sx[1]))
    if len(sx) == 3 and sx[0] == 'as':      # (as VNone Val)
        return value_of(sx[1])
    return sx


def _decode_model_string(t):
    body = t[1:-1].replace('""', '"')
    body = re.sub(r'\\u\{([0-9a-fA-F]+)\}', lambda m: chr(int(m.group(1), 16)), body)
    body = re.sub(r'\\u([0-9a-fA-F]{4})', lambda m: chr(int(m.group(1), 16)), body)
    body = re.sub(r'\\x([0-9a-fA-F]{2})', lambda m: chr(int(m.group(1), 16)), body)
    return body


# ---------------------------------------------------------------- solvers
SOLVERS = {
    'z3': lambda f, t: ['z3-new', '-T:%d' % max(1, int(t)), f],
    'cvc5': lambda f, t: ['/usr/bin/cvc5', '--strings-exp', '--tlimit=%d' % int(t * 1000), f],
    'z3old': lambda f, t: ['/usr/bin/z3', '-T:%d' % max(1, int(t)), f],
    'cvc5fmf': lambda f, t: ['/usr/bin/cvc5', '--strings-exp', '--strings-fmf', '--tlimit=%d' % int(t * 1000), f],
}


class Result:
    __slots__ = ('verdict', 'solver', 'time', 'output', 'values')

    def __init__(self, verdict, solver, t, output, values=None):
        self.verdict = verdict
        self.solver = solver
        self.time = t
        self.output = output
        self.values = values


def _first_line(out):
    """the solver's answer: first output line that is not a warning (z3 warns about ignored patterns and answers anyway)"""
    for l in out.split('\n'):
        l = l.strip()
        if l and not l.startswith('WARNING'):
            return l
    return ''


def _run_one(name, path, timeout):
    t0 = time.time()
    try:
        p = subprocess.run(SOLVERS[name](path, timeout), capture_output=True, text=True,
                           timeout=timeout + 5)
        out = (p.stdout or '') + (p.stderr or '')
    except subprocess.TimeoutExpired:
        out = 'timeout'
    dt = time.time() - t0
    first = _first_line(out)
    if first in ('sat', 'unsat'):
        v = first
    elif first == 'unknown' or 'timeout' in out:
        v = 'unknown'
    else:
        v = 'error'
    return Result(v, name, dt, out)


def solve_text(text, timeout=20, order=('z3', 'cvc5'), workdir=None, keep=None, get_values=None, alt_text=None):
    """Run the portfolio concurrently; the first definite answer wins.  'unknown' if none."""
    d = workdir or tempfile.mkdtemp(prefix='pyvc_')
    path = os.path.join(d, keep or 'q.smt2')
    body = text
    if get_values:
        body = text.replace('(check-sat)', '(check-sat)\n(get-value (%s))' % ' '.join(get_values))
    with open(path, 'w') as f:
        f.write(body)
    procs = []
    t0 = time.time()
    outs = []
    try:
        for name in order:
            p = subprocess.Popen(SOLVERS[name](path, timeout), stdout=subprocess.PIPE, stderr=subprocess.STDOUT, text=True)
            procs.append((name, p))
        if alt_text and not get_values:
            # sound variants (goal skolemised, quantified assumptions instantiated / dropped): only an
            # `unsat` answer of a variant is used
            for k, (label, vt) in enumerate(alt_text):
                if not label:
                    continue
                path2 = os.path.join(d, 'q_v%d.smt2' % k)
                with open(path2, 'w') as f:
                    f.write(vt)
                for name in order:
                    p = subprocess.Popen(SOLVERS[name](path2, timeout), stdout=subprocess.PIPE, stderr=subprocess.STDOUT, text=True)
                    procs.append((name + label, p))
        pending = list(procs)
        winner = None
        while pending and winner is None:
            for name, p in list(pending):
                rc = p.poll()
                if rc is None:
                    continue
                pending.remove((name, p))
                out = p.stdout.read() or ''
                first = _first_line(out)
                outs.append('%s: %s' % (name, out.strip()[:300]))
                if first == 'unsat' or (first == 'sat' and '+' not in name):
                    winner = Result(first, name, time.time() - t0, out)
                    break
            if winner is None and pending:
                if time.time() - t0 > timeout + 5:
                    break
                time.sleep(0.005)
        if winner is not None:
            if winner.verdict == 'sat' and get_values:
                winner.values = _parse_values(winner.output)
            return winner
        joined = '\n'.join(outs)
        if outs and all('(error' in o or 'Parse Error' in o for o in outs):
            return Result('error', '-', time.time() - t0, joined)
        return Result('unknown', '-', time.time() - t0, joined)
    finally:
        for name, p in procs:
            if p.poll() is None:
                p.kill()
            try:
                p.stdout.close()
            except Exception:
                pass
            p.wait()
        if workdir is None:
            shutil.rmtree(d, ignore_errors=True)


def _parse_values(out):
    rest = out.split('\n', 1)[1] if '\n' in out else ''
    rest = rest.strip()
    if not rest.startswith('('):
        return None
    try:
        sx = parse_sexpr(rest)[0]
    except Exception:
        return None
    vals = {}
    for pair in sx:
        if isinstance(pair, list) and len(pair) == 2:
            vals[_unparse(pair[0])] = value_of(pair[1])
    return vals


def _unparse(sx):
    if isinstance(sx, str):
        return sx
    return '(' + ' '.join(_unparse(x) for x in sx) + ')'


def solve_many(jobs, timeout=20, order=('z3', 'cvc5'), workers=None):
    """jobs: list of (key, text). returns dict key -> Result"""
    workers = workers or min(16, max(1, (os.cpu_count() or 4)))
    res = {}
    with ThreadPoolExecutor(max_workers=workers) as ex:
        futs = {ex.submit(solve_text, text, timeout, order): key for key, text in jobs}
        for fut, key in futs.items():
            res[key] = fut.result()
    return res
