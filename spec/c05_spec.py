"""C05: spec functions over the id -> routine map (`wrapper_map`) of the MATLAB wrapper.

A *role* is the tuple (role name, class-or-function object, member, routine-name prefix, is-up-cast) that a
call site in a generated .m file is meant for.  `c05_consistent(d, k, role)` says that the
gateway `case k:` -- as generate_wrapper / mex_function lay it out from the map d -- runs the
routine generated for exactly that role.
"""
from pyvc.api import spec, implies


@spec()
def c05_consistent(d, k, role):
    if k in d and (k == 0 or (k - 1) in d):
        # normal id: its own entry
        return (not role[4] and d[k][2] == role[0] and same(d[k][1], role[1])
                and same(d[k][4], role[2]) and d[k][3] == role[3] + '_' + int_str(k))
    if k in d:
        # id right after a reserved (unnamed) id: the up-cast routine of the class in entry k
        return role[4] and same(d[k][1], role[1])
    # reserved id: served by the entry stored one above, whose routine name carries this id
    return ((k + 1) in d and not role[4] and d[k + 1][2] == role[0] and same(d[k + 1][1], role[1])
            and same(d[k + 1][4], role[2]) and d[k + 1][3] == role[3] + '_' + int_str(k))


@spec()
def c05_inv(w):
    n = w.wrapper_id
    d = w.wrapper_map
    return (n >= 0
            and forall(lambda k: implies(k >= n or k < 0, k not in d and siteCount[k] == 0))
            and (n == 0 or (n - 1) in d)
            and forall(0, n, lambda v: siteCount[v] == 1 and c05_consistent(d, v, siteRole[v])))


@spec()
def c05_target(d, k):
    """name of the routine that `case k:` of the gateway switch calls"""
    if k >= 1 and (k - 1) not in d and k in d:
        return d[k][1].name + '_upcastFromVoid_' + int_str(k)
    if k in d:
        return d[k][3]
    return d[k + 1][3]


@spec()
def c05_upcast_at(d, k):
    return k >= 1 and (k - 1) not in d and k in d
