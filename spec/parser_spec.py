"""C01: what the repository-side node constructors must build (class member classification, parent links)."""
from pyvc.api import spec, implies

S = ()        # the functions take the *sequence value* seq(members): they do not depend on the list heap


@spec(rec=True, ret='seq:any', reads=S)
def only_ctors(ms, k):
    """the constructors among ms[:k], in order"""
    if k <= 0:
        return []
    return only_ctors(ms, k - 1) + ([ms[k - 1]] if isinstance(ms[k - 1], Constructor) else [])


@spec(rec=True, ret='seq:any', reads=S)
def only_methods(ms, k):
    if k <= 0:
        return []
    return only_methods(ms, k - 1) + ([ms[k - 1]] if isinstance(ms[k - 1], Method) else [])


@spec(rec=True, ret='seq:any', reads=S)
def only_statics(ms, k):
    if k <= 0:
        return []
    return only_statics(ms, k - 1) + ([ms[k - 1]] if isinstance(ms[k - 1], StaticMethod) else [])


@spec(rec=True, ret='seq:any', reads=S)
def only_dunders(ms, k):
    if k <= 0:
        return []
    return only_dunders(ms, k - 1) + ([ms[k - 1]] if isinstance(ms[k - 1], DunderMethod) else [])


@spec(rec=True, ret='seq:any', reads=S)
def only_properties(ms, k):
    if k <= 0:
        return []
    return only_properties(ms, k - 1) + ([ms[k - 1]] if isinstance(ms[k - 1], Variable) else [])


@spec(rec=True, ret='seq:any', reads=S)
def only_operators(ms, k):
    if k <= 0:
        return []
    return only_operators(ms, k - 1) + ([ms[k - 1]] if isinstance(ms[k - 1], Operator) else [])


@spec(rec=True, ret='seq:any', reads=S)
def only_enums(ms, k):
    if k <= 0:
        return []
    return only_enums(ms, k - 1) + ([ms[k - 1]] if isinstance(ms[k - 1], Enum) else [])


@spec()
def inst_typename(x):
    """an instantiation-list entry as a type name: a templated entry contributes its (instantiated) type name"""
    return x.typename if isinstance(x, TemplatedType) else x
