"""Denotation of the pybind11 bindings (C03/C04/C09): what text declares which binding.

R(binding) is written from the property statements: a binding forwards to the declared C++ entity with
the declared parameter types, names, defaults and order; Python keywords get a trailing underscore.
"""
import keyword
from pyvc.api import spec, implies

PYTHON_KEYWORDS = tuple(keyword.kwlist)          # the reference, not the list in the code under test
IPYTHON = ("svg", "png", "jpeg", "html", "javascript", "markdown", "latex")


@spec()
def py_arg(a):
    """one keyword argument: py::arg("name") [= default]"""
    return 'py::arg("' + a.name + '")' + ('' if a.default is None else ' = ' + a.default)


@spec(rec=True, ret='str', reads='tree')
def py_args_join(args, k):
    """the first k keyword arguments separated by ', '"""
    if k <= 0:
        return ''
    if k == 1:
        return py_arg(args[0])
    return py_args_join(args, k - 1) + ', ' + py_arg(args[k - 1])


@spec()
def py_args_names(al):
    return '' if len(al.args_list) == 0 else ', ' + py_args_join(al.args_list, len(al.args_list))


@spec()
def args_signature(al):
    """C++ parameter list of the wrapper lambda: `type name` in declared order"""
    return ', '.join([ty_cpp(a.ctype) + ' ' + a.name for a in al.args_list])


@spec()
def args_names(al):
    return ', '.join([a.name for a in al.args_list])


@spec()
def args_types(al):
    return ', '.join([ty_cpp(a.ctype) for a in al.args_list])

IND = '\n        '


@spec()
def ctor_binding(c):
    return IND + '.def(py::init<' + args_types(c.args) + '>()' + py_args_names(c.args) + ')'


@spec(rec=True, ret='str', reads='tree')
def ctors_fold(ctors, k):
    if k <= 0:
        return ''
    return ctors_fold(ctors, k - 1) + ctor_binding(ctors[k - 1])


@spec()
def py_name(cpp_method, base):
    """Python-visible name: ipython special methods are renamed, Python keywords get a trailing underscore"""
    return ((('_repr_' + cpp_method + '_') if cpp_method in IPYTHON else base)
            + ('_' if ((('_repr_' + cpp_method + '_') if cpp_method in IPYTHON else base) in PYTHON_KEYWORDS) else ''))


@spec()
def serialization_binding(cpp_class):
    return (IND + '.def("serialize", [](' + cpp_class + '* self){ return gtsam::serialize(*self); })'
            + IND + '.def("deserialize", [](' + cpp_class + '* self, string serialized){ gtsam::deserialize(serialized, *self); }, py::arg("serialized"))'
            + IND + '.def(py::pickle(' + IND + '    [](const ' + cpp_class + ' &a){ /* __getstate__: Returns a string that encodes the state of the object */ return py::make_tuple(gtsam::serialize(a)); },'
            + IND + '    [](py::tuple t){ /* __setstate__ */ ' + cpp_class + ' obj; gtsam::deserialize(t[0].cast<std::string>(), obj); return obj; }))')


@spec()
def plain_method_binding(m, cpp_class, prefix, suffix, method_suffix, doc):
    """.def / .def_static of one (static) method overload forwarding to the declared C++ member"""
    return (prefix + '.' + ('def_static' if isinstance(m, StaticMethod) else 'def')
            + '("' + py_name(callee_cpp(m), m.name + method_suffix) + '",[]('
            + ((cpp_class + '* self') if isinstance(m, Method) else '')
            + (', ' if isinstance(m, Method) and len(m.args.args_list) > 0 else '')
            + args_signature(m.args) + '){'
            + ('' if (m.return_type.type1.typename.name == 'void' and not m.return_type.type2) else 'return')
            + ' ' + ((cpp_class + '::') if not isinstance(m, Method) else 'self->') + callee_cpp(m)
            + '(' + args_names(m.args) + ');}' + py_args_names(m.args) + doc + ')' + suffix)


@spec()
def repr_binding(m, cpp_class, prefix, suffix):
    return (prefix + '.def("__repr__",\n                    [](const ' + cpp_class + '& self'
            + (', ' if len(m.args.args_list) > 0 else '') + args_signature(m.args) + '){\n'
            + '                        gtsam::RedirectCout redirect;\n'
            + '                        self.' + m.name + '(' + args_names(m.args) + ');\n'
            + '                        return redirect.str();\n'
            + '                    }' + py_args_names(m.args) + ')' + suffix)


@spec()
def dunder_binding(m, cpp_class, prefix, suffix):
    return (prefix + '.def("__' + m.name + '__",[](' + cpp_class + '* self'
            + (', ' if len(m.args.args_list) > 0 else '') + args_signature(m.args) + '){'
            + ('return std::distance(self->begin(), self->end());' if m.name == 'len'
               else ('return std::find(self->begin(), self->end(), ' + m.args.args_list[0].name + ') != self->end();' if m.name == 'contains'
                     else 'return py::make_iterator(self->begin(), self->end());'))
            + '}' + py_args_names(m.args) + ')' + suffix)


@spec(rec=True, ret='str', reads='tree')
def dunders_fold(ms, cpp_class, prefix, suffix, k):
    if k <= 0:
        return ''
    return dunders_fold(ms, cpp_class, prefix, suffix, k - 1) + dunder_binding(ms[k - 1], cpp_class, prefix, suffix)


@spec()
def property_binding(p, cpp_class, prefix):
    return (prefix + '.def_' + ('readonly' if p.ctype.is_const else 'readwrite') + '("' + p.name + '", &'
            + cpp_class + '::' + p.name + ')')


@spec(rec=True, ret='str', reads='tree')
def properties_fold(ps, cpp_class, prefix, k):
    if k <= 0:
        return ''
    return properties_fold(ps, cpp_class, prefix, k - 1) + property_binding(ps[k - 1], cpp_class, prefix)


@spec()
def operator_binding(op, cpp_class, prefix):
    return (prefix + '.def("__getitem__", &' + cpp_class + '::operator[])' if op.operator == '[]'
            else (prefix + '.def("__call__", &' + cpp_class + '::operator())' if op.operator == '()'
                  else (prefix + '.def(' + op.operator + 'py::self)' if op.is_unary
                        else prefix + '.def(py::self ' + op.operator + ' py::self)')))


@spec(rec=True, ret='str', reads='tree')
def operators_fold(ops, cpp_class, prefix, k):
    if k <= 0:
        return ''
    return operators_fold(ops, cpp_class, prefix, k - 1) + operator_binding(ops[k - 1], cpp_class, prefix)


@spec()
def variable_binding(namespace, module_var, v, prefix):
    # the attribute is bound to the namespaced C++ variable, or to its initialiser expression as written
    return (prefix + module_var + '.attr("' + v.name + '") = '
            + ((namespace + v.name) if v.default is None else v.default) + ';')


@spec(rec=True, ret='str', reads='tree')
def enumerators_fold(es, cpp_class, prefix, k):
    if k <= 0:
        return ''
    return (enumerators_fold(es, cpp_class, prefix, k - 1)
            + '\n' + prefix + '    .value("' + es[k - 1].name + '", ' + cpp_class + '::' + es[k - 1].name + ')')


@spec()
def enum_binding(e, cpp_class, module, prefix):
    return (prefix + 'py::enum_<' + cpp_class + '>(' + module + ', "' + e.name + '", py::arithmetic())'
            + enumerators_fold(e.enumerators, cpp_class, prefix, len(e.enumerators)) + ';\n\n')


@spec()
def doc_literal(text):
    """the docstring argument appended to a binding: a C++ string literal holding text"""
    return ', "' + py_repr(text)[1:-1].replace('"', '\\"') + '"'


@spec(rec=True, ret='str', reads='tree')
def method_binding(w, m, cpp_class, prefix, suffix, method_suffix, doc):
    """everything _wrap_method emits for one overload"""
    if callee_cpp(m) == 'serialize' or callee_cpp(m) == 'serializable':
        return serialization_binding(cpp_class) if w.use_boost_serialization else ''
    if m.name == 'print':
        return (plain_method_binding(m, cpp_class, prefix, suffix, method_suffix, doc)
                .replace('self->print', 'py::scoped_ostream_redirect output; self->print')
                + repr_binding(m, cpp_class, prefix, suffix))
    return plain_method_binding(m, cpp_class, prefix, suffix, method_suffix, doc)


@spec(rec=True, ret='str', reads='tree')
def methods_fold(w, ms, cpp_class, prefix, suffix, k):
    """bindings of the first k methods; gtsam::Values.insert(size_t, X) additionally gets an insert_<name> alias"""
    if k <= 0:
        return ''
    return (methods_fold(w, ms, cpp_class, prefix, suffix, k - 1)
            + (method_binding(w, ms[k - 1], cpp_class, prefix, suffix, '_' + ms[k - 1].args.args_list[1].name.strip(), '')
               if (ms[k - 1].name == 'insert' and cpp_class == 'gtsam::Values'
                   and ty_cpp(ms[k - 1].args.args_list[0].ctype).strip() == 'size_t') else '')
            + method_binding(w, ms[k - 1], cpp_class, prefix, suffix, '', ''))


@spec()
def function_binding(f, namespace, prefix, suffix):
    """free function overload: m.def("name", [](params){[return] ns::callee(names);}, py::arg...)"""
    return (prefix + '.' + ('def_static' if isinstance(f, StaticMethod) else 'def') + '("'
            + (f.name + '_' if (f.name in PYTHON_KEYWORDS or f.name == 'print') else f.name) + '",[]('
            + args_signature(f.args) + '){'
            + ('' if (f.return_type.type1.typename.name == 'void' and not f.return_type.type2) else 'return')
            + ' ' + namespace + '::' + (igf_cpp(f) if isinstance(f, InstantiatedGlobalFunction) else f.name)
            + '(' + args_names(f.args) + ');}' + py_args_names(f.args) + ')' + suffix)


@spec(rec=True, ret='str', reads='tree')
def functions_fold(fs, namespace, prefix, suffix, k):
    if k <= 0:
        return ''
    return functions_fold(fs, namespace, prefix, suffix, k - 1) + function_binding(fs[k - 1], namespace, prefix, suffix)


@spec()
def module_var(w, namespaces):
    return 'm_' + '_'.join(namespaces[len(w.top_module_namespaces):])


@spec()
def qualified(name, namespaces):
    """C++ qualification of name under a namespace path whose first component is the empty global namespace"""
    return ('::'.join(namespaces[(1 if namespaces[0] == '' else 0):] + [name])) if len(namespaces) > 0 else name


@spec(rec=True, ret='str', reads='tree')
def enums_fold(es, cpp_class, module, prefix, k):
    """class-scoped enums: each bound under the class's C++ name, registered on the class's Python object"""
    if k <= 0:
        return ''
    return (enums_fold(es, cpp_class, module, prefix, k - 1) + '\n'
            + enum_binding(es[k - 1], cpp_class + '::' + enum_cpp(es[k - 1]), module, prefix))

PFX = '\n' + ' ' * 8        # default indentation of member bindings


@spec()
def class_parent_text(c):
    """`Base, ` in the py::class_ template arguments (nothing without a base class)"""
    return (tn_cpp(c.parent_class) + ', ') if not isinstance(c.parent_class, str) else ''


@spec()
def class_declaration(w, c):
    """py::class_<Cpp, [Base, ]std::shared_ptr<Cpp>>(module, "Name"): as a named object when the class has enums"""
    return (('\n    py::class_<' + ic_cpp(c) + ', ' + class_parent_text(c) + 'std::shared_ptr<' + ic_cpp(c) + '>> '
             + c.name.lower() + '(' + module_var(w, [''] + ns_chain(c.parent)) + ', "' + c.name + '");\n    ' + c.name.lower())
            if len(c.enums) > 0 else
            ('\n    py::class_<' + ic_cpp(c) + ', ' + class_parent_text(c) + 'std::shared_ptr<' + ic_cpp(c) + '>>('
             + module_var(w, [''] + ns_chain(c.parent)) + ', "' + c.name + '")'))


@spec()
def class_binding(w, c):
    """the class and its members in the fixed order ctors, methods, statics, dunders, properties, operators"""
    return ('' if ic_cpp(c) in w.ignore_classes else
            class_declaration(w, c) + ctors_fold(c.ctors, len(c.ctors))
            + methods_fold(w, c.methods, ic_cpp(c), PFX, '', len(c.methods))
            + methods_fold(w, c.static_methods, ic_cpp(c), PFX, '', len(c.static_methods))
            + dunders_fold(c.dunder_methods, ic_cpp(c), PFX, '', len(c.dunder_methods))
            + properties_fold(c.properties, ic_cpp(c), PFX, len(c.properties))
            + operators_fold(c.operators, ic_cpp(c), PFX, len(c.operators)) + ';\n')


@spec()
def declaration_binding(w, d):
    return ('' if idecl_cpp(d) in w.ignore_classes else
            '\n    py::class_<' + idecl_cpp(d) + ', std::shared_ptr<' + idecl_cpp(d) + '>>('
            + module_var(w, [''] + ns_chain(d.parent)) + ', "' + d.name + '");')
