"""C++ spellings and instantiated names of types (spec functions; B.1/B.3 of DESIGN.md).

Written from the dialect's meaning: a type name is `ns1::ns2::Name<arg, ...>`; an instantiated
(identifier-safe) name is Name followed by the instantiated names of its arguments.
"""
from pyvc.api import spec, implies

TN = ('name', 'namespaces', 'instantiations', 'SEQ')


@spec(rec=True, ret='bool', reads='tree')
def wf_tn(t):
    """a Typename whose to_cpp() is defined: a Typename stored in .name (after template substitution)
    only occurs on a name without template arguments of its own"""
    return ((isinstance(t.name, str) or (len(t.instantiations) == 0 and wf_tn(t.name)))
            and forall(0, len(t.instantiations), lambda j: wf_tn(t.instantiations[j])))


@spec(rec=True, ret='bool', reads='tree')
def wf_tn_plain(t):
    """a Typename as the parser produces it: every name is a string"""
    return isinstance(t.name, str) and forall(0, len(t.instantiations), lambda j: wf_tn_plain(t.instantiations[j]))


@spec(rec=True, ret='str', reads='tree')
def tn_cpp(t):
    return ('::'.join(t.namespaces) + ('::' if len(t.namespaces) > 0 else '')
            + (t.name if isinstance(t.name, str) else tn_cpp(t.name))
            + (('<' + ', '.join([tn_cpp(i) for i in t.instantiations]) + '>') if len(t.instantiations) > 0 else ''))


@spec(rec=True, ret='str', reads='tree')
def tn_iname_fold(insts, k):
    if k <= 0:
        return ''
    return tn_iname_fold(insts, k - 1) + tn_iname(insts[k - 1])


@spec(rec=True, ret='str', reads='tree')
def tn_iname(t):
    return t.name + tn_iname_fold(t.instantiations, len(t.instantiations))


@spec()
def tn_qualified(t):
    return '::'.join(t.namespaces + [t.name])

NSR = ('parent', 'name')


@spec(rec=True, ret='seq:str', reads='tree')
def ns_chain(a):
    """names of a and its named ancestors, outermost first; a is '' (no parent) or a node"""
    if isinstance(a, str):
        return []
    if a.name == '':
        return []
    return ns_chain(a.parent) + [a.name]


TY = TN + ('typename', 'template_params', 'is_const', 'is_shared_ptr', 'is_ptr', 'is_ref')


@spec()
def q_cpp(x, t):
    """spelling x wrapped in the pointer / reference / const markers of type t"""
    return (('const ' if t.is_const else '')
            + (('std::shared_ptr<' + x + '>') if t.is_shared_ptr else ((x + '*') if t.is_ptr else ((x + '&') if t.is_ref else x))))


@spec(rec=True, ret='bool', reads='tree')
def wf_ty(t):
    if isinstance(t, TemplatedType):
        return (isinstance(t.typename.name, str)
                and forall(0, len(t.template_params), lambda j: wf_ty(t.template_params[j])))
    return wf_tn(t.typename)


@spec(rec=True, ret='str', reads='tree')
def ty_cpp(t):
    if isinstance(t, TemplatedType):
        return q_cpp(tn_qualified(t.typename) + '<' + ', '.join([ty_cpp(p) for p in t.template_params]) + '>', t)
    return q_cpp(tn_cpp(t.typename), t)


@spec()
def igf_cpp(f):
    """callee spelling of an instantiated function template: name<C++ spelling of each template argument>"""
    return (f.original.name + '<' + ','.join([tn_cpp(i) for i in f.instantiations]) + '>'
            if f.original.template else f.original.name)


@spec()
def im_cpp(m):
    """callee spelling of an instantiated (static) method / constructor: name<explicit template args>"""
    return (m.original.name + '<' + ','.join([tn_cpp(x) for x in m.instantiations]) + '>'
            if m.original.template else m.original.name)


@spec()
def callee_cpp(m):
    return im_cpp(m) if isinstance(m, (InstantiatedMethod, InstantiatedStaticMethod)) else m.name


@spec()
def ic_cpp(c):
    """C++ spelling of an instantiated class: ns::Name<args> (template) or ns::Name"""
    return ('::'.join(ns_chain(c.parent)) + ('::' if len(ns_chain(c.parent)) > 0 else '')
            + (c.original.name + '<' + ', '.join([tn_cpp(i) for i in c.instantiations]) + '>' if c.original.template else c.original.name))


@spec(rec=True, ret='str', reads='tree')
def iname_suffix(insts, k):
    """instantiated names of insts[:k], each with its first character capitalised (the rest untouched)"""
    if k <= 0:
        return ''
    return iname_suffix(insts, k - 1) + tn_iname(insts[k - 1])[0].capitalize() + tn_iname(insts[k - 1])[1:]


@spec()
def idecl_cpp(d):
    """C++ spelling of an instantiated forward declaration: ns::Name<qualified args>"""
    return ('::'.join(ns_chain(d.parent)) + ('::' if len(ns_chain(d.parent)) > 0 else '')
            + d.original.name + '<' + ','.join(['::'.join(i.namespaces + [i.name]) for i in d.instantiations]) + '>')


@spec()
def enum_cpp(e):
    """C++ spelling of an enum under its collected namespaces"""
    return '::'.join(ns_chain(e.parent)) + ('::' if len(ns_chain(e.parent)) > 0 else '') + e.name


@spec()
def template_arity(t):
    """number of parameters of a template (-1: not a template)"""
    return len(t.typenames) if isinstance(t, Template) else -1


@spec(rec=True, ret='any', reads='tree')
def ns_root(n):
    """the outermost namespace: the first ancestor without a name or without a parent"""
    return n if (n.name == '' or isinstance(n.parent, str)) else ns_root(n.parent)


@spec()
def same_quals(a, b):
    """the qualifiers of a type: const, shared pointer, raw pointer, reference, basic"""
    return (a.is_const == b.is_const and a.is_shared_ptr == b.is_shared_ptr and a.is_ptr == b.is_ptr
            and a.is_ref == b.is_ref and a.is_basic == b.is_basic)


@spec()
def same_quals_or_absent(a, b):
    """second member of a return type: absent ('') or a type with the qualifiers of b"""
    if isinstance(a, str):
        return True
    if isinstance(b, str):
        return False
    return same_quals(a, b)
