"""C06: denotations of the MATLAB overload guards and C++ marshalling (mode table, argument order)."""
from pyvc.api import spec, implies

NOT_PTR = ('int', 'double', 'bool', 'char', 'unsigned char', 'size_t')
IGNORE_NS = ('Matrix', 'Vector', 'Point2', 'Point3')


@spec()
def can_be_pointer(t):
    return t.typename.name not in NOT_PTR and t.typename.name not in IGNORE_NS and t.typename.name != 'string'


@spec()
def passes_by_reference(t):
    return t.is_ref if (t.typename.name not in IGNORE_NS and t.typename.name not in NOT_PTR) else False


@spec()
def varargout_text(return_type, formatted):
    """left-hand side of the MATLAB gateway call for the declared return shape"""
    return (('' if formatted == 'void' else 'varargout{1} = ') if return_type.type2 == ''
            else '[ varargout{1} varargout{2} ] = ')


@spec(rec=True, ret='str', reads='tree')
def varargin_list(n, k):
    """varargin{1}, ..., varargin{k}"""
    if k <= 0:
        return ''
    return varargin_list(n, k - 1) + ('' if k == 1 else ', ') + 'varargin{' + int_str(k) + '}'

TN = ('name', 'namespaces', 'instantiations', 'SEQ')


@spec()
def ml_data_type(name):
    """MATLAB class of a C++ basic type (MatlabWrapper.data_type, the name itself when not listed)"""
    return ('char' if name == 'string' or name == 'char' else 'unsigned char' if name == 'unsigned char'
            else 'double' if name == 'Vector' or name == 'Matrix' else 'numeric' if name == 'int' or name == 'size_t'
            else 'logical' if name == 'bool' else name)


@spec()
def ml_data_type_param(name):
    """type used in MATLAB method signatures (MatlabWrapper.data_type_param, the name itself when not listed)"""
    return ('char' if name == 'string' or name == 'char' else 'unsigned char' if name == 'unsigned char'
            else 'int' if name == 'size_t' or name == 'int'
            else 'double' if name == 'double' or name == 'Point2' or name == 'Point3' or name == 'Vector' or name == 'Matrix'
            else 'bool' if name == 'bool' else name)


@spec(rec=True, ret='str', reads='tree')
def ml_ns_prefix(nss, k, sep):
    """the non-empty namespaces nss[:k], each followed by sep"""
    if k <= 0:
        return ''
    return ml_ns_prefix(nss, k - 1, sep) + ((nss[k - 1] + sep) if nss[k - 1] != '' else '')


@spec(rec=True, ret='str', reads='tree')
def ml_args_join(insts, k, incl, ctor, meth):
    if k <= 0:
        return ''
    return ml_args_join(insts, k - 1, incl, ctor, meth) + (',' if k > 1 else '') + ml_type_name(insts[k - 1], '::', incl, ctor, meth)


@spec(rec=True, ret='str', reads='tree')
def ml_args_cat(insts, k, sep, ctor, meth):
    if k <= 0:
        return ''
    return ml_args_cat(insts, k - 1, sep, ctor, meth) + ml_type_name(insts[k - 1], sep, False, ctor, meth)


@spec()
def ml_head(t, sep, incl, ctor, meth):
    """namespaces and base name"""
    return ((ml_ns_prefix(t.namespaces, len(t.namespaces), sep) if incl and t.name not in IGNORE_NS else '')
            + (ml_data_type(t.name) if ctor else (ml_data_type_param(t.name) if meth else t.name)))


@spec(rec=True, ret='str', reads='tree')
def ml_type_name(t, sep, incl, ctor, meth):
    """spelling of a type name with separator sep: C++ (`::`, template arguments in <,>) or MATLAB
    (`.` / '' with the template arguments appended)"""
    return (ml_head(t, sep, incl, ctor, meth)
            + (((('<' + ml_args_join(t.instantiations, len(t.instantiations), incl, ctor, meth) + '>')
                 if len(t.instantiations) > 0 else '')) if sep == '::'
               else ml_args_cat(t.instantiations, len(t.instantiations), sep, ctor, meth)))

AT = TN + ('ctype', 'typename')


@spec()
def ml_check_type(t, ctor):
    """MATLAB class tested by isa() for a parameter of type name t"""
    return ('char' if t.name == 'string' or t.name == 'char' else 'unsigned char' if t.name == 'unsigned char'
            else 'numeric' if t.name == 'size_t' or t.name == 'int'
            else 'double' if (t.name == 'double' or t.name == 'Point2' or t.name == 'Point3' or t.name == 'Vector' or t.name == 'Matrix')
            else 'logical' if t.name == 'bool' else ml_type_name(t, '.', True, ctor, False))


@spec()
def ml_guard(i, t, ctor):
    """guard of the i-th (1-based) MATLAB argument for declared type name t"""
    return (" && isa(varargin{" + int_str(i) + "},'" + ml_check_type(t, ctor) + "')"
            + ((' && size(varargin{' + int_str(i) + '},2)==1') if t.name == 'Vector' else '')
            + ((' && size(varargin{' + int_str(i) + '},1)==2' + ' && size(varargin{' + int_str(i) + '},2)==1') if t.name == 'Point2' else '')
            + ((' && size(varargin{' + int_str(i) + '},1)==3' + ' && size(varargin{' + int_str(i) + '},2)==1') if t.name == 'Point3' else ''))


@spec(rec=True, ret='str', reads='tree')
def ml_guards(args, k, ctor):
    """guards of the first k parameters: the i-th guard tests varargin{i} against the i-th declared type"""
    if k <= 0:
        return ''
    return ml_guards(args, k - 1, ctor) + ml_guard(k, args[k - 1].ctype.typename, ctor)

EN = ('enums', 'name', 'parent', 'content', 'typename', 'SEQ')


@spec()
def ml_is_class_enum(t, c):
    return c is not None and exists(0, len(c.enums), lambda j: c.enums[j].name == t.typename.name)


@spec()
def ml_is_global_enum(t, c):
    return c is not None and exists(0, len(c.parent.content), lambda j: isinstance(c.parent.content[j], Enum)
                                    and c.parent.content[j].name == t.typename.name)


@spec()
def ml_is_enum(t, c):
    return ml_is_class_enum(t, c) or ml_is_global_enum(t, c)


@spec()
def ml_mode(t, e):
    """passing mode of a declared parameter type t (e: t names an enum of the class or of its namespace)"""
    return ('enum' if e
            else 'ref' if (t.typename.name not in IGNORE_NS and t.typename.name not in NOT_PTR and t.is_ref != '')
            else 'ptr' if (t.is_ptr != '' and t.typename.name not in IGNORE_NS)
            else 'shared' if ((t.is_shared_ptr != '' or can_be_pointer(t)) and t.typename.name not in IGNORE_NS)
            else 'value')


@spec()
def ml_cpp(t):
    return ml_type_name(t.typename, '::', True, False, False)


@spec()
def ml_camel(t):
    return ml_type_name(t.typename, '', True, False, False)


@spec()
def ml_unwrap_type(t, e):
    """C++ type of the local variable that receives the unwrapped argument"""
    return (tn_cpp(t.typename) if ml_mode(t, e) == 'enum' else ml_cpp(t) + '&' if ml_mode(t, e) == 'ref'
            else ml_cpp(t) + '*' if ml_mode(t, e) == 'ptr' else 'std::shared_ptr<' + ml_cpp(t) + '>' if ml_mode(t, e) == 'shared'
            else t.typename.name)


@spec()
def ml_unwrap_text(t, i, e):
    """C++ expression that unwraps in[i] with the declared passing mode"""
    return ('unwrap_enum<' + tn_cpp(t.typename) + '>(in[' + int_str(i) + ']);' if ml_mode(t, e) == 'enum'
            else '*unwrap_shared_ptr< ' + ml_cpp(t) + ' >(in[' + int_str(i) + '], "ptr_' + ml_camel(t) + '");' if ml_mode(t, e) == 'ref'
            else 'unwrap_ptr< ' + ml_cpp(t) + ' >(in[' + int_str(i) + '], "ptr_' + ml_camel(t) + '");' if ml_mode(t, e) == 'ptr'
            else 'unwrap_shared_ptr< ' + ml_cpp(t) + ' >(in[' + int_str(i) + '], "ptr_' + ml_camel(t) + '");' if ml_mode(t, e) == 'shared'
            else 'unwrap< ' + t.typename.name + ' >(in[' + int_str(i) + ']);')

import textwrap  # noqa: E402

PAD20 = ' ' * 20       # indentation of the statement template inside the source literal (removed by textwrap.dedent)
ARGR = AT + EN + ('default', 'is_ref', 'is_ptr', 'is_shared_ptr', 'is_const', 'args_list')


@spec(rec=True, ret='str', reads='tree')
def ml_unwrap_body(args, k, id0, c):
    """one statement per explicit parameter: the i-th (1-based) parameter is unwrapped from in[id0 + i - 1]"""
    if k <= 0:
        return ''
    return (ml_unwrap_body(args, k - 1, id0, c)
            + textwrap.indent(textwrap.dedent(PAD20 + ml_unwrap_type(args[k - 1].ctype, ml_is_enum(args[k - 1].ctype, c)) + ' ' + args[k - 1].name + ' = '
                                              + ml_unwrap_text(args[k - 1].ctype, id0 + k - 1, ml_is_enum(args[k - 1].ctype, c)) + '\n' + PAD20), prefix='  '))


@spec()
def ml_deref(t, c):
    """an object handed over as shared pointer but declared by value is dereferenced in the call"""
    return (not (t.typename.name not in IGNORE_NS and t.typename.name not in NOT_PTR and t.is_ref != '')
            and can_be_pointer(t) and t.is_shared_ptr == '' and t.is_ptr == ''
            and not ml_is_enum(t, c) and t.typename.name not in IGNORE_NS)


@spec()
def ml_call_arg(a, shown, c):
    """text of one argument in the C++ call: an omitted default's original expression, or the local variable"""
    return (a.default if (a.default is not None and a.name not in [x.name for x in shown])
            else ('*' if ml_deref(a.ctype, c) else '') + a.name)


@spec(rec=True, ret='str', reads='tree')
def ml_call_args(full, k, shown, c):
    """the declared parameters full[:k] in order, separated by commas"""
    if k <= 0:
        return ''
    return (ml_call_args(full, k - 1, shown, c) + (',' if ml_call_args(full, k - 1, shown, c) != '' else '')
            + ml_call_arg(full[k - 1], shown, c))


# ---------------------------------------------------------------- C10: enumeration classdef
@spec()
def ml_enum_text(e):
    """enumeration classdef: the enumerators in declared order, numbered from 0 by position"""
    return ('classdef ' + e.name + ' < uint32\n    enumeration\n        '
            + '\n        '.join([x.name + '(' + int_str(i) + ')' for i, x in enumerate(e.enumerators)])
            + '\n    end\nend\n')


# ---------------------------------------------------------------- C06: returns (single, pair, void, object, enum)
@spec()
def ml_shared_return(tn, shared_obj, i, nl):
    """a value type of the ignore list (Vector, Matrix, Point2, Point3) returned through a shared pointer"""
    return ('  {\n  std::shared_ptr<' + ml_type_name(tn, '::', False, False, False) + '> shared(' + shared_obj + ');\n'
            + '  out[' + int_str(i) + '] = wrap_shared_ptr(shared,"' + ml_type_name(tn, '::', False, False, False) + '");\n  }'
            + ('\n' if nl else ''))


@spec()
def ml_is_pointerish(t):
    return t.is_shared_ptr != '' or t.is_ptr != '' or can_be_pointer(t)


@spec()
def ml_pair_member(t, i):
    """out[i] of a pair result: first for i = 0, second otherwise; objects are wrapped as shared pointers under their MATLAB class name"""
    return ((ml_shared_return(t.typename, ('pairResult.' + ('first' if i == 0 else 'second')) if (t.is_shared_ptr != '' or t.is_ptr != '')
                              else ('std::make_shared<' + ml_type_name(t.typename, '::', True, False, False) + '>(pairResult.'
                                    + ('first' if i == 0 else 'second') + ')'), i, i == 0)
             if t.typename.name in IGNORE_NS else
             '  out[' + int_str(i) + '] = wrap_shared_ptr('
             + (('pairResult.' + ('first' if i == 0 else 'second')) if (t.is_shared_ptr != '' or t.is_ptr != '')
                else ('std::make_shared<' + ml_type_name(t.typename, '::', True, False, False) + '>(pairResult.'
                      + ('first' if i == 0 else 'second') + ')'))
             + ',"' + ml_type_name(t.typename, '.', True, False, False) + '", false);' + ('\n' if i == 0 else ''))
            if ml_is_pointerish(t) else
            '  out[' + int_str(i) + '] = wrap< ' + ml_type_name(t.typename, '.', True, False, False) + ' >(pairResult.'
            + ('first' if i == 0 else 'second') + ');' + ('\n' if i == 0 else ''))



@spec()
def ml_enum_class(t, c):
    """MATLAB package path of the enumeration class that type t names (class-scoped: package of the class plus the class)"""
    return ('.'.join(ns_chain(c.parent) + [c.name]) if ml_is_class_enum(t, c)
            else '.'.join(ns_chain(c.parent.parent) + ([c.parent.name] if c.parent.name != '' else [])))


@spec()
def ml_is_optional(t):
    return isinstance(t, TemplatedType) and tn_cpp(t.typename)[:13] == 'std::optional'


@spec()
def ml_shared_obj(obj, t):
    """the arguments of wrap_shared_ptr for a single object result: the pointer and the MATLAB class name"""
    return ((obj + ',"' + ml_type_name(t.typename, '.', True, False, False) + '"') if (t.is_shared_ptr != '' or t.is_ptr != '')
            else ('std::make_shared<' + ml_type_name(t.typename, '::', True, False, False) + '>(' + (('*' + obj) if ml_is_optional(t) else obj) + '),"'
                  + (('.'.join(t.template_params[0].typename.namespaces) + '.' + t.template_params[0].typename.name) if ml_is_optional(t)
                     else ml_type_name(t.typename, '.', True, False, False)) + '"'))


@spec()
def ml_single_return(obj, t, c):
    """out[0] of a single result: enumeration / object behind a shared pointer / plain value"""
    if c is not None and ml_is_enum(t, c):
        return textwrap.indent('out[0] = wrap_enum(' + obj + ',"' + ((ml_enum_class(t, c) + '.') if ml_enum_class(t, c) != '' else '')
                               + t.typename.name + '");', prefix='  ')
    if ml_is_pointerish(t):
        return ((ml_shared_return(t.typename, obj, 0, False) if t.typename.name in IGNORE_NS else '')
                + (textwrap.indent('out[0] = wrap_shared_ptr(' + ml_shared_obj(obj, t) + ', false);', prefix='  ')
                   if t.typename.name not in IGNORE_NS else ''))
    return '  out[0] = wrap< ' + t.typename.name + ' >(' + obj + ');'


@spec()
def ml_global_prefix(f):
    """`ns1::ns2::` of a free function (mirrors the slicing of the joined full namespace list)"""
    return (''.join(['::' + x for x in ([''] + ns_chain(f.parent.parent) + ([f.parent.name] if f.parent.name != '' else []))]) + '::')[4:]


@spec()
def ml_callee(m):
    """C++ spelling of the declared entity that the routine calls"""
    return (im_cpp(m) if isinstance(m, InstantiatedMethod)
            else (ic_cpp(m.parent) + '::' + m.original.name) if isinstance(m, InstantiatedStaticMethod)
            else ml_global_prefix(m) + m.name)


@spec()
def ml_invocation(m, c):
    """the call: [obj->]callee(arguments in declared order, omitted defaults by their text)"""
    return (('obj->' if isinstance(m, InstantiatedMethod) else '') + ml_callee(m) + '('
            + ml_call_args(m.args.backup.args_list, len(m.args.backup.args_list), m.args.args_list, c) + ')')


@spec()
def ml_pair_second(t2):
    return ml_pair_member(t2, 1) if isinstance(t2, Type) else ''


@spec()
def ml_return_body(m, c):
    """the call and the outputs for the declared return shape: void / single / pair"""
    if m.return_type.type1.typename.name == 'void':
        return '  ' + ml_invocation(m, c) + ';'
    if m.return_type.type2 == '':
        return ml_single_return(ml_invocation(m, c), m.return_type.type1, c)
    return ('  auto pairResult = ' + ml_invocation(m, c) + ';\n'
            + ml_pair_member(m.return_type.type1, 0) + ml_pair_second(m.return_type.type2))


@spec(rec=True, ret='str', reads='tree')
def ml_args_decl(args, k):
    """`type name, type name, ...` for the first k parameters (comment line of a MATLAB method)"""
    if k <= 0:
        return ''
    return (ml_args_decl(args, k - 1) + ml_type_name(args[k - 1].ctype.typename, '::', False, False, False) + ' ' + args[k - 1].name
            + ('' if k == len(args) else ', '))


@spec()
def ml_return_spelling(r, incl, sep):
    return (ml_type_name(r.type1.typename, sep, incl, False, False) if r.type2 == ''
            else 'pair< ' + ml_type_name(r.type1.typename, sep, incl, False, False) + ', ' + ml_pair_second_name(r.type2, sep, incl) + ' >')


@spec()
def ml_pair_second_name(t2, sep, incl):
    return ml_type_name(t2.typename, sep, incl, False, False) if isinstance(t2, Type) else ''


# ---------------------------------------------------------------- C06: the .m gateway of a free function
@spec(rec=True, ret='str', reads='tree')
def ml_function_branches(module_name, overloads, k, id0):
    """one branch per overload (arity), in order: the count test, the type guards of that overload's parameters, and
    the gateway call with that overload's id (id0 + position)"""
    if k <= 0:
        return ''
    return (ml_function_branches(module_name, overloads, k - 1, id0)
            + ('      if' if k == 1 else '      elseif') + ' length(varargin) == '
            + ('0\n' if len(overloads[k - 1].args.args_list) == 0
               else int_str(len(overloads[k - 1].args.args_list))
               + ml_guards(overloads[k - 1].args.args_list, len(overloads[k - 1].args.args_list), True) + '\n')
            + textwrap.indent(varargout_text(overloads[k - 1].return_type, ml_return_spelling(overloads[k - 1].return_type, True, '.'))
                              + module_name + '_wrapper(' + int_str(id0 + k - 1) + ', varargin{:});\n', prefix='        '))


@spec()
def ml_t2_plain(t2):
    return wf_tn_plain(t2.typename) if isinstance(t2, Type) else True


@spec()
def ml_ret_plain(r):
    """the type names of a return type are plain (strings all the way down)"""
    return wf_tn_plain(r.type1.typename) and ml_t2_plain(r.type2)


# ---------------------------------------------------------------- C10: the preamble of the MEX source
@spec()
def ml_pre_ignored(w, c):
    """the class is named in the ignore list (by its qualified name)"""
    return '::'.join(([''] + ns_chain(c.parent))[1:] + [c.name]) in w.ignore_classes


@spec()
def ml_pre_name(c):
    """identifier of the class in the MEX source: namespaces and name run together"""
    return ((''.join(['' + x for x in ([''] + ns_chain(c.parent.parent) + ([c.parent.name] if c.parent.name != '' else []))]) + '')[0:]
            + c.name)


@spec()
def ml_pre_cpp(c):
    """C++ type of the class in the MEX source: the typedef name of an instantiation, else the qualified name"""
    return c.name if len(c.instantiations) > 0 else ic_cpp(c)


@spec(rec=True, ret='str', reads='tree')
def ml_collectors(w, classes, k):
    """one collector typedef + object per class that is not ignored, in order"""
    if k <= 0:
        return ''
    return (ml_collectors(w, classes, k - 1)
            + ('' if ml_pre_ignored(w, classes[k - 1]) else
               'typedef std::set<std::shared_ptr<' + ml_pre_cpp(classes[k - 1]) + '>*> Collector_' + ml_pre_name(classes[k - 1]) + ';\n'
               + 'static Collector_' + ml_pre_name(classes[k - 1]) + ' collector_' + ml_pre_name(classes[k - 1]) + ';\n'))


@spec(rec=True, ret='str', reads='tree')
def ml_deletes(w, classes, k):
    """one clean-up block per class that is not ignored: every collector is emptied at unload"""
    if k <= 0:
        return ''
    return (ml_deletes(w, classes, k - 1)
            + ('' if ml_pre_ignored(w, classes[k - 1]) else WrapperTemplate.delete_obj.format(class_name=ml_pre_name(classes[k - 1]))))


@spec(rec=True, ret='str', reads='tree')
def ml_rtti(w, classes, k):
    """one registry entry per virtual class that is not ignored"""
    if k <= 0:
        return ''
    return (ml_rtti(w, classes, k - 1)
            + ('    types.insert(std::make_pair(typeid(' + ml_pre_cpp(classes[k - 1]) + ').name(), "' + ml_pre_name(classes[k - 1]) + '"));\n'
               if (not ml_pre_ignored(w, classes[k - 1]) and classes[k - 1].is_virtual != '') else ''))
