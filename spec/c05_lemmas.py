"""C05: lemmas over the contracts (no code; the bodies are empty, the contracts are the statements)."""


def lemma_every_id_served_once(w):
    pass


def lemma_allocator_is_monotone(w, cf, id_diff, function_name):
    pass
