#!/venv/bin/python
"""regenerate MANIFEST.json from the table below"""
import json, os
ROOT = os.path.dirname(os.path.dirname(os.path.abspath(__file__)))
props = [json.loads(l) for l in open(os.path.join(ROOT, 'properties.jsonl'))]

BOUNDED_NOTE = ('trusted: the reference semantics / readers under /verif (gen/, props/), CPython and pyparsing for the bounded part; '
                'the VC generator pyvc, z3/cvc5 and the typed-field well-formedness schema for the proved part; termination and the run-time '
                'semantics of emitted C++/MATLAB text are not verified.')
PY_TECH = 'contract-based deductive verification (Python-ast -> SMT VCs, z3+cvc5) of the leaf emitters; run-time contracts and a reference-binding oracle on a bounded scope for the rest'
CHECKS = {
    'C01': dict(cat='other', design='7/C01',
                text='The 22 repository-side node constructors that the grammar actions call (fields, member classification by kind in source order, parent links, constructor-name and operator validation) are proved against contracts for all arguments. Exact structural checks of the live grammar graph (results-name dataflow, flag/terminal table, end anchor). Bounded round trip: for seeded derivations of a reference grammar written from DOCS.md the abstracted real parse tree must equal the written tree. The pyparsing matcher and the class-body lambdas are outside the proof.',
                note=BOUNDED_NOTE, technique='contract-based deductive verification (Python-ast -> SMT VCs, z3+cvc5) of the functions listed in the evidence; bounded stand-in (real output read back / reference oracle on a stated scope) for the rest; structural inspection of the grammar objects built by the real code'),
    'C02': dict(cat='other', design='7/C02',
                text='instantiate_args_list / instantiate_return_type proved to keep argument names, default text, order and the pair/single shape, is_scoped_template proved to recognise a scoped use by its first :: component; instantiate_type proved (contracts/c02_quals.py) to return a new Type with the five qualifiers of its argument in every branch, lifted to every argument and both return-type members, and to substitute plain names exactly (a parameter name -> the argument of the first parameter of that name, a non-parameter unchanged, This -> the class typename) (under one argument per template parameter, partial correctness w.r.t. IndexError, frame of nested calls assumed: a frame proof was attempted and withdrawn, DESIGN 11.5). Bounded: every type of every instantiated member on the scope (random + sanitised + curated scenarios with look-alike identifiers, This::X, multi-instantiation templates, every shape of the structured scope) is compared, through the emitted bindings, with capture-free reference substitution.',
                note=BOUNDED_NOTE, technique='contract-based deductive verification (Python-ast -> SMT VCs, z3+cvc5) of the functions listed in the evidence; bounded stand-in (real output read back / reference oracle on a stated scope) for the rest'),
    'C03': dict(cat='other', design='7/C03', text='Leaf emitters (constructors, dunders, properties, operators, variables, enums, class-scoped enums, forward-declaration classes, module-variable / qualification helpers) proved equal to their denotations for all inputs; _wrap_method / wrap_methods / wrap_instantiated_class proved as conditional contracts (no method named print, serialization and documentation off) and monitored at run time otherwise; presence, names, submodule placement, top-namespace and ignore filters decided on a bounded scope by reading real output back and comparing with the bindings declared by the reference semantics.',
                note=BOUNDED_NOTE, technique=PY_TECH),
    'C04': dict(cat='other', design='7/C04', text='Keyword-argument lists with defaults, lambda parameter lists, callee spellings with explicit template arguments, void detection and serialization '
                     'bindings proved equal to their denotations for all inputs; forwarding of every emitted binding (types, names, defaults, order, static/instance, return) '
                     'decided on the bounded scope against the reference semantics. The C++ behaviour of the text is assumed.',
                note=BOUNDED_NOTE, technique=PY_TECH),
    'C05': dict(cat='proof',
                text='Deductive proof on the real code: VCs generated from the current ast of 16 functions of MatlabWrapper '
                     '(allocator, all 10 allocation sites, their callers, mex_function, generate_wrapper) and one lemma are discharged '
                     'by z3/cvc5; the class invariant c05_inv carries the property through every history of allocations. A seeded '
                     'end-to-end read-back of real generator output runs alongside as a bounded guard (never counted as proof).',
                note='trusted: the self-built VC generator (pyvc) and its Python-subset encoding; z3/cvc5; typed-field well-formedness of '
                     'instantiated trees (contracts/schema.py); assumed type-level contracts of text helpers and of '
                     'generate_collector_function (one routine per map entry, named by it); format-hole logging identifies the id '
                     'placed in each gateway call; termination not proved.',
                technique='contract-based deductive verification: Python-ast -> SMT VCs (class invariant, loop invariants, ghost call-site log), z3+cvc5',
                design='7/C05'),
    'C06': dict(cat='other', design='7/C06', text='Proved for all inputs: the MATLAB guards (i-th guard tests varargin{i} against the class of the i-th declared type), the C++/MATLAB type spelling, the passing-mode table of _unwrap_argument, the unwrap statements (i-th parameter from in[id0+i-1]) and the call arguments (declared order, omitted defaults by their text, dereference rule) of _wrapper_unwrap_arguments, enum tests and varargout text; these are conditional contracts (type names plain). Bounded read-back of real MATLAB output on a structured scope for the rest: arities n..n-k, checkArguments counts, return outputs and enum classes, .m guards; _expand_default_arguments, _group_methods and the _collector_return family are not proved.',
                note=BOUNDED_NOTE, technique='contract-based deductive verification (Python-ast -> SMT VCs, z3+cvc5) of the functions listed in the evidence; bounded stand-in (real output read back / reference oracle on a stated scope) for the rest'),
    'C07': dict(cat='other', design='7/C07', text='Proved: the validating constructors (an accepted class has only constructors carrying its name; an accepted operator is unary +/- or has one argument of the result type). Exact: end-of-input anchor and results-name dataflow of the live grammar; write-after-validation ordering of the three entry points (syntactic). Bounded: token-level corruptions of seeded modules (incl. misspelled constructors) are rejected or fully accounted for; failing runs leave scratch output trees byte-identical.',
                note=BOUNDED_NOTE, technique='contract-based deductive verification (Python-ast -> SMT VCs, z3+cvc5) of the functions listed in the evidence; bounded stand-in (real output read back / reference oracle on a stated scope) for the rest; structural checks of grammar graph and entry-point control flow; bounded fault enumeration'),
    'C08': dict(cat='other', design='7/C08', text='Proved: instantiate_name (capitalised concatenation), Typename.instantiated_name / __init__, the C++ spelling Name<args> under the collected namespaces (InstantiatedClass.cpp_typename / to_cpp, InstantiatedDeclaration.to_cpp) and the callee spellings of instantiated members (collect_namespaces assumed). Count, order (first parameter slowest), typedef instantiations and pass-through decided on the bounded scope against the reference product semantics.', note=BOUNDED_NOTE, technique=PY_TECH),
    'C09': dict(cat='other', design='7/C09', text='Type spellings (Typename / Type / TemplatedType.to_cpp), qualification and keyword-argument / lambda-parameter agreement proved for all inputs; balance, '
                     'arity agreement, declared-before-use module variables and qualification checked on real output by a strict reader on the bounded scope. No compiler is run.',
                note=BOUNDED_NOTE, technique=PY_TECH),
    'C10': dict(cat='other', design='7/C10', text='Proved: the enumeration classdef text (enumerators in declared order numbered from 0), the MEX preamble as folds over the class list (generate_preamble: one collector and one clean-up block per non-ignored class, an RTTI entry exactly for the virtual ones), the properties block of a classdef (pointer property, then the declared properties in order) and the class naming helpers. Bounded: the generated file tree and MEX preamble are compared with the entities declared by the reference semantics (classdefs in +package paths, function files, one MEX source, collectors, clean-up, RTTI) under both serialization settings.', note=BOUNDED_NOTE,
                technique='contract-based deductive verification (Python-ast -> SMT VCs, z3+cvc5) of the functions listed in the evidence; bounded stand-in (real output read back / reference oracle on a stated scope) for the rest'),
    'C12': dict(cat='other', design='7/C12', text='Exact: every composite grammar element carries the comment-ignore expression and skips white space; terminals spanning two tokens are the listed ones. '
                     'Bounded: seeded re-layouts (blanks, newlines, block/line comments with braces, semicolons, quotes) give equal trees and byte-identical wrappers.',
                note=BOUNDED_NOTE, technique='structural inspection of the grammar graph + bounded differential re-layout'),
    'C13': dict(cat='other', design='7/C13', text='instantiate_args_list / instantiate_return_type proved to change no object that existed before (given the assumed frame contract of instantiate_type). Bounded relational check on real output: list restriction, permutation, parameter renaming and repeated wrapping leave per-instantiation bindings unchanged.',
                note=BOUNDED_NOTE, technique='contract-based deductive verification of the two signature instantiators (frame); bounded stand-in: relational comparison of real outputs of related inputs'),
    'C14': dict(cat='other', design='7/C14', text='Exact effect contracts (syntactic): only the declared entry points have I/O / environment / clock / random / id-hash / set-iteration effects and every open() names '
                     'an encoding. Bounded: byte-identical output trees across processes, hash seeds, working directories, LC_ALL=C, earlier calls on one wrapper object and earlier runs. '
                     'Concurrent schedules are not explored.', note=BOUNDED_NOTE, technique='effect contracts checked structurally + bounded repeatability scenarios'),
    'C15': dict(cat='other', design='7/C15', text='Bounded relational check: output with ignore=[X] equals output of the input with X deleted, for both generators (gateway ids masked), for plain classes and template instantiations.',
                note=BOUNDED_NOTE, technique='bounded stand-in: relational comparison of real outputs (ignore vs delete)'),
    'C16': dict(cat='other', design='7/C16', text='Bounded scenarios on real files and subprocesses: main file declares / calls one initialiser per part in order and each part equals wrapping its text alone; MATLAB file lists '
                     'with varied final characters equal one concatenated file; both scripts equal the API over option combinations; namespace option conversion located structurally.',
                note=BOUNDED_NOTE, technique='bounded scenario checks of composition (API and subprocess)'),
    'C17': dict(cat='other', design='7/C17', text='Proved: overload selection (determine_documenting_index: the k-th request for a signature gets the k-th documented definition, never out of range, other remembered keys untouched). Bounded: documentation texts over character-class representatives go through generated Doxygen XML, the real extractor and generator; the emitted literal is decoded by a reference C++ literal decoder; overload matching, empty docstrings for missing documentation and "nothing else changes" are checked.', note=BOUNDED_NOTE,
                technique='contract-based deductive verification (Python-ast -> SMT VCs, z3+cvc5) of the functions listed in the evidence; bounded stand-in (real output read back / reference oracle on a stated scope) for the rest'),
    'C19': dict(cat='exploration', design='7/C19', text='Bounded exploration with a deterministic ghost cost (matcher invocations) on scaled families (namespace depth, commented headers, template-argument depth, file size), '
                     'also after a failed parse in the same process.', note='bounds and envelopes are stated in the evidence; an unbounded complexity proof of the third-party matcher is out of reach',
                technique='bounded cost exploration with call counting (no timing)'),
}
NA = {
    'C18': 'matlab.h is C++ against mex.h / Eigen / GTSAM headers that are not installed; no deductive verifier for C++ is available and the planned clang-AST VC generator '
           'was not built; a hand-written model of the conversions would be a different technique family (DESIGN.md 7/C18)',
    'C11': 'history property of the execution of generated C++ against matlab.h (ownership, double free, unload); no deductive verifier '
           'for C++ is installed and a model of the gateway would be a different technique family (DESIGN.md 7/C11)',
}
m = {"version": 1, "setup_cmd": "true",
     "hooks": {"guard": "GTWRAP_VERIF", "enable": "no hooks: contracts are sidecar files under /verif; /repo is read with ast and imported unmodified",
               "baseline_off_cmd": "cd /repo && /venv/bin/python -m pytest -q -p no:cacheprovider --timeout=900 tests",
               "source_commits": [], "add_only": True},
     "engines": [{"name": "pyvc", "path": "pyvc/", "serves_properties": sorted(CHECKS),
                  "kind_free_text": "self-built VC generator: symbolic execution of the real Python functions (ast re-read every run) against sidecar contracts, SMT-LIB2 to z3 5.1 / cvc5 1.0"}],
     "checks": [], "notes": "see DESIGN.md; known_findings.json lists repaired and open findings",
     "not_applicable": []}
for p in props:
    pid = p['id']
    if pid in CHECKS:
        c = CHECKS[pid]
        m['checks'].append({"property_id": pid, "quick_cmd": "./check %s --tier quick" % pid, "thorough_cmd": "./check %s --tier thorough" % pid,
                            "evidence_file": "evidence/%s.json" % pid, "replay_cmd_template": "./check %s --replay {path}" % pid,
                            "engine": "pyvc", "level_claimed": {"category": c['cat'], "text": c['text'], "design_ref": c['design']},
                            "level_note": c['note'], "technique": c['technique']})
    else:
        m['not_applicable'].append({"property_id": pid, "reason": NA.get(pid, 'check not built yet (build in progress, see DESIGN.md section 9)')})
json.dump(m, open(os.path.join(ROOT, 'MANIFEST.json'), 'w'), indent=1)
print('checks:', [c['property_id'] for c in m['checks']])
