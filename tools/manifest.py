#!/venv/bin/python
"""regenerate MANIFEST.json from the table below"""
import json, os
ROOT = os.path.dirname(os.path.dirname(os.path.abspath(__file__)))
props = [json.loads(l) for l in open(os.path.join(ROOT, 'properties.jsonl'))]

CHECKS = {
    'C05': dict(cat='proof',
                text='Deductive proof on the real code: VCs generated from the current ast of 16 functions of MatlabWrapper '
                     '(allocator, all 10 allocation sites, their callers, mex_function, generate_wrapper) and one lemma are discharged '
                     'by z3/cvc5; the class invariant c05_inv carries the property through every history of allocations. A seeded '
                     'end-to-end read-back of real generator output runs alongside as a bounded guard (never counted as proof).',
                note='trusted: the self-built VC generator (pyvc) and its Python-subset encoding; z3/cvc5; typed-field well-formedness of '
                     'instantiated trees (contracts/schema.py); assumed type-level contracts of text helpers and of '
                     'generate_collector_function (one routine per map entry, named by it); format-hole logging identifies the id '
                     'placed in each gateway call; termination not proved.',
                technique='contract-based deductive verification: Python-ast -> SMT VCs (class invariant, loop invariants, ghost call-site log), z3+cvc5',
                design='7/C05'),
}
NA = {
    'C11': 'history property of the execution of generated C++ against matlab.h (ownership, double free, unload); no deductive verifier '
           'for C++ is installed and a model of the gateway would be a different technique family (DESIGN.md 7/C11)',
}
m = {"version": 1, "setup_cmd": "true",
     "hooks": {"guard": "GTWRAP_VERIF", "enable": "no hooks: contracts are sidecar files under /verif; /repo is read with ast and imported unmodified",
               "baseline_off_cmd": "cd /repo && /venv/bin/python -m pytest -q -p no:cacheprovider --timeout=900 tests",
               "source_commits": [], "add_only": True},
     "engines": [{"name": "pyvc", "path": "pyvc/", "serves_properties": sorted(CHECKS),
                  "kind_free_text": "self-built VC generator: symbolic execution of the real Python functions (ast re-read every run) against sidecar contracts, SMT-LIB2 to z3 5.1 / cvc5 1.0"}],
     "checks": [], "notes": "see DESIGN.md; known_findings.json lists repaired and open findings",
     "not_applicable": []}
for p in props:
    pid = p['id']
    if pid in CHECKS:
        c = CHECKS[pid]
        m['checks'].append({"property_id": pid, "quick_cmd": "./check %s --tier quick" % pid, "thorough_cmd": "./check %s --tier thorough" % pid,
                            "evidence_file": "evidence/%s.json" % pid, "replay_cmd_template": "./check %s --replay {path}" % pid,
                            "engine": "pyvc", "level_claimed": {"category": c['cat'], "text": c['text'], "design_ref": c['design']},
                            "level_note": c['note'], "technique": c['technique']})
    else:
        m['not_applicable'].append({"property_id": pid, "reason": NA.get(pid, 'check not built yet (build in progress, see DESIGN.md section 9)')})
json.dump(m, open(os.path.join(ROOT, 'MANIFEST.json'), 'w'), indent=1)
print('checks:', [c['property_id'] for c in m['checks']])
