"""The proof sets of the registered checks: (property, function keys, contract modules, schema, invariants, hook guards)."""
from props import pyprops

MAT = ['contracts.common', 'contracts.names', 'contracts.pybind', 'contracts.matlab_text', 'contracts.c06']


def sets():
    from contracts.parser import C01_KEYS
    import props.C05 as c05
    from contracts.c06 import C06_KEYS
    from contracts.c06_sites import C06_SITE_KEYS
    import props.C10 as c10
    out = [('C01', C01_KEYS, ['contracts.common', 'contracts.names', 'contracts.pybind', 'contracts.parser'], 'SCHEMA', '', []),
           ('C05', c05.KEYS, c05.MODULES, 'TREE_SCHEMA', 'TREE_INVARIANTS', [c05.GATEWAY]),
           ('C06', C06_KEYS, MAT, 'TREE_SCHEMA', 'TREE_INVARIANTS', []),
           ('C06s', C06_SITE_KEYS, MAT[:4] + ['contracts.c05', 'contracts.c06_sites'], 'TREE_SCHEMA', 'TREE_INVARIANTS', []),
           ('C07', ['Class.__init__', 'Operator.__init__'], ['contracts.common', 'contracts.names', 'contracts.pybind', 'contracts.parser'], 'SCHEMA', '', []),
           ('C10', c10.KEYS, MAT, 'TREE_SCHEMA', 'TREE_INVARIANTS', []),
           ('C17', ['XMLDocParser.determine_documenting_index'], pyprops.NAMES, 'TREE_SCHEMA', 'TREE_INVARIANTS', [])]
    for pid, keys in pyprops.PROOFS.items():
        out.append((pid, keys, pyprops.NAMES + pyprops.MODULES_EXTRA.get(pid, []), 'TREE_SCHEMA', 'TREE_INVARIANTS', []))
    for pid, extra in pyprops.EXTRA_SETS.items():
        for n, (keys, mods) in enumerate(extra):
            out.append(('%sx%d' % (pid, n), keys, mods, 'TREE_SCHEMA', 'TREE_INVARIANTS', []))
    return out
