#!/venv/bin/python
"""confirm every seeded change in a scratch clone of the pinned commit: tests pass with it, the demonstration fails with it
and passes without it; then try to apply it to the current HEAD (with the fix: commits). Writes seeded/<id>/meta.json."""
import json, os, shutil, subprocess, sys, tempfile
ROOT = os.path.dirname(os.path.dirname(os.path.abspath(__file__)))
PINNED = '130e5e2'
only = sys.argv[1:]
for name in sorted(os.listdir(os.path.join(ROOT, 'seeded'))):
    d = os.path.join(ROOT, 'seeded', name)
    if not os.path.isdir(d) or (only and name not in only):
        continue
    tmp = tempfile.mkdtemp(prefix='cs_')
    try:
        repo = os.path.join(tmp, 'repo')
        subprocess.check_call(['git', 'clone', '-q', '/repo', repo])
        subprocess.check_call(['git', '-C', repo, 'checkout', '-q', PINNED])
        tpl = os.path.join(repo, 'gtwrap/matlab_wrapper/matlab_wrapper.tpl')
        open(tpl, 'w').write('#include <gtwrap/matlab.h>\n#include <map>\n')
        env = dict(os.environ, PYTHONPATH=repo)
        def demo():
            extra = [f for f in os.listdir(d) if f not in ('patch.diff', 'demo.py', 'meta.json', 'agent_meta.json', 'last_run.json')]
            w = os.path.join(tmp, 'demo'); shutil.rmtree(w, ignore_errors=True); shutil.copytree(d, w)
            p = subprocess.run(['/venv/bin/python', 'demo.py'], cwd=w, env=env, capture_output=True, text=True, timeout=900)
            return p.returncode, (p.stdout + p.stderr)[-300:]
        rc0, out0 = demo()
        ap = subprocess.run(['git', '-C', repo, 'apply', os.path.join(d, 'patch.diff')], capture_output=True, text=True)
        if name.startswith('C18'):
            shutil.copy(os.path.join(repo, 'matlab.h'), os.path.join(tmp, 'x'))
        t = subprocess.run(['/venv/bin/python', '-m', 'pytest', '-q', '-p', 'no:cacheprovider', 'tests'], cwd=repo, env=env, capture_output=True, text=True)
        tests_ok = '94 passed' in t.stdout
        rc1, out1 = demo()
        subprocess.run(['git', '-C', repo, 'checkout', '-q', '--', '.'])
        subprocess.run(['git', '-C', repo, 'checkout', '-q', 'main'], capture_output=True)
        head = subprocess.run(['git', '-C', repo, 'apply', '--check', os.path.join(d, 'patch.diff')], capture_output=True, text=True)
        agent = json.load(open(os.path.join(d, 'agent_meta.json')))
        meta = dict(property=name.split('-')[0], summary=agent.get('summary'), needs_to_manifest=agent.get('needs_to_manifest'),
                    files=agent.get('files'), confirmed=dict(patch_applies_to_pinned=ap.returncode == 0, tests_pass_with_change=tests_ok,
                                                             demo_passes_without_change=rc0 == 0, demo_fails_with_change=rc1 != 0,
                                                             patch_applies_to_head_with_fixes=head.returncode == 0),
                    ran=['git apply patch.diff on a scratch clone of %s' % PINNED, 'pytest tests (94)', 'demo.py with and without the change'],
                    demo_output_with_change=out1)
        keep = meta['confirmed']
        meta['kept'] = bool(keep['patch_applies_to_pinned'] and keep['tests_pass_with_change'] and keep['demo_passes_without_change'] and keep['demo_fails_with_change'])
        json.dump(meta, open(os.path.join(d, 'meta.json'), 'w'), indent=1)
        print(name, 'kept' if meta['kept'] else 'NOT-CONFIRMED', keep)
    finally:
        shutil.rmtree(tmp, ignore_errors=True)
