#!/venv/bin/python
"""confirm the hand-rebased seeded changes (patch_on_fixed_head.diff) on the current HEAD of /repo: the demonstration passes
without the change, the 94 tests pass with it and the demonstration fails with it. Adds `rebased` to seeded/<id>/meta.json."""
import json, os, shutil, subprocess, sys, tempfile
ROOT = os.path.dirname(os.path.dirname(os.path.abspath(__file__)))
only = sys.argv[1:]
for name in sorted(os.listdir(os.path.join(ROOT, 'seeded'))):
    d = os.path.join(ROOT, 'seeded', name)
    pf = os.path.join(d, 'patch_on_fixed_head.diff')
    if not os.path.isfile(pf) or (only and name not in only):
        continue
    tmp = tempfile.mkdtemp(prefix='cr_')
    try:
        repo = os.path.join(tmp, 'repo')
        subprocess.check_call(['git', 'clone', '-q', '/repo', repo])
        tpl = os.path.join(repo, 'gtwrap/matlab_wrapper/matlab_wrapper.tpl')
        if not os.path.exists(tpl):
            src = '/repo/gtwrap/matlab_wrapper/matlab_wrapper.tpl'
            if os.path.exists(src):
                shutil.copy(src, tpl)
            else:
                open(tpl, 'w').write('#include <gtwrap/matlab.h>\n#include <map>\n')
        env = dict(os.environ, PYTHONPATH=repo)

        def demo():
            w = os.path.join(tmp, 'demo'); shutil.rmtree(w, ignore_errors=True); shutil.copytree(d, w)
            p = subprocess.run(['/venv/bin/python', 'demo.py'], cwd=w, env=env, capture_output=True, text=True, timeout=900)
            return p.returncode, (p.stdout + p.stderr)[-300:]
        rc0, out0 = demo()
        ap = subprocess.run(['git', '-C', repo, 'apply', pf], capture_output=True, text=True)
        t = subprocess.run(['/venv/bin/python', '-m', 'pytest', '-q', '-p', 'no:cacheprovider', 'tests'], cwd=repo, env=env, capture_output=True, text=True)
        rc1, out1 = demo()
        head = subprocess.run(['git', '-C', '/repo', 'log', '--format=%h', '-1'], capture_output=True, text=True).stdout.strip()
        res = dict(head=head, applies=ap.returncode == 0, tests_pass_with_change='94 passed' in t.stdout,
                   demo_passes_without_change=rc0 == 0, demo_fails_with_change=rc1 != 0, demo_output_without_change=out0 if rc0 else '')
        mp = os.path.join(d, 'meta.json')
        meta = json.load(open(mp))
        meta['rebased'] = res
        json.dump(meta, open(mp, 'w'), indent=1)
        print(name, res)
    finally:
        shutil.rmtree(tmp, ignore_errors=True)
