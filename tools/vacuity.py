#!/venv/bin/python
"""Developer tool: for every infeasible path of the given functions find the first assumption that makes the path condition
unsatisfiable.  A branch or loop condition there is the normal case (the path enumeration forks on conditions that earlier
decisions already settled); anything else (requires, wf, lib, ensures, alloc, def, inv) is a contradiction inside the contract or
the engine's model and makes what the path discharges worthless.
usage: tools/vacuity.py [--schema S --invs I] <contract modules> <function key> ..."""
import importlib
import os
import sys
from concurrent.futures import ThreadPoolExecutor
sys.path.insert(0, os.path.dirname(os.path.dirname(os.path.abspath(__file__))))
from pyvc.extract import Repo            # noqa: E402
from pyvc.vc import Engine, smt_text     # noqa: E402
from pyvc import api, smt                # noqa: E402
import contracts.schema as sch           # noqa: E402

args = sys.argv[1:]
if args and args[0] == '--all':
    # one subprocess per proof set (contract modules of different sets replace one another's contracts)
    import subprocess
    from tools.proofsets import sets
    rc = 0
    seen = set()
    for pid, keys, mods, schema, invs, guards in sets():
        keys = [k for k in keys if (k, tuple(mods)) not in seen]
        seen |= {(k, tuple(mods)) for k in keys}
        if keys and (len(args) == 1 or pid in args[1:]):
            print('==', pid)
            sys.stdout.flush()
            rc |= subprocess.call([sys.executable, __file__, '--schema', schema, '--invs', invs or '-', ','.join(mods)] + keys)
    sys.exit(rc)
schema_name, invs_name = 'TREE_SCHEMA', 'TREE_INVARIANTS'
while args and args[0].startswith('--'):
    if args[0] == '--schema':
        schema_name = args[1]
    if args[0] == '--invs':
        invs_name = '' if args[1] == '-' else args[1]
    args = args[2:]
for m in args[0].split(','):
    importlib.import_module(m)
_repo = Repo()
for m in args[0].split(','):
    for lf in getattr(sys.modules[m], 'LEMMA_FILES', []):
        _repo.add_lemma_file(os.path.join(os.path.dirname(os.path.dirname(os.path.abspath(__file__))), lf))
e = Engine(_repo, getattr(sch, schema_name), api.CONTRACTS, api.SPECS, getattr(sch, invs_name) if invs_name else {})
if any('c05' in m for m in args[0].split(',')):
    import props.C05 as _c05
    e.hook_guards = [_c05.GATEWAY]


def unsat(decls, pc):
    return smt.solve_text(smt_text(decls, pc, None), 3, ('z3',)).verdict == 'unsat'


def culprit(p):
    """None if the path is feasible or dead only because of its branch decisions; otherwise the first assumption that makes the
    assumptions other than branch / loop conditions contradictory"""
    if not unsat(p.decls, p.pc):
        return None
    rest = [(t, k) for t, k in p.pc if k not in ('pc', 'loop')]
    if not unsat(p.decls, rest):
        return 'branch'
    lo, hi = 0, len(rest)          # invariant: prefix lo not shown unsat, prefix hi unsat
    while hi - lo > 1:
        mid = (lo + hi) // 2
        if unsat(p.decls, rest[:mid]):
            hi = mid
        else:
            lo = mid
    return rest[hi - 1]


bad = 0
for key in args[1:]:
    fr = e.verify_function(key)
    with ThreadPoolExecutor(max_workers=16) as ex:
        res = list(ex.map(culprit, fr.paths))
    dead = [(p, c) for p, c in zip(fr.paths, res) if c is not None]
    odd = [(p, c) for p, c in dead if c != 'branch']
    print('%s: paths %d dead %d, of which contradictory without their branch conditions: %d' % (key, len(fr.paths), len(dead), len(odd)))
    seen = set()
    for p, (t, tag) in odd:
        if (tag, t) in seen:
            continue
        seen.add((tag, t))
        bad += 1
        print('   [%s] %s' % (tag, t[:600]))
        print('      path:', ' '.join(p.trace)[-300:])
sys.exit(1 if bad else 0)
