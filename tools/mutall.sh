#!/bin/bash
# run every seeded change against the quick check of its property (3 at a time, each on its own scratch clone of /repo)
ROOT=$(cd "$(dirname "$0")/.." && pwd)
cd $ROOT
ls -d seeded/C*-* | grep -v C18 | xargs -P 3 -I{} bash -c 'pid=$(basename {} | cut -d- -f1); tools/mut.py {} $pid 2>&1 | grep -v WARN'
/venv/bin/python tools/seeded_summary.py
echo mutall-done
