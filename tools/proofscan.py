#!/venv/bin/python
"""Developer tool: run every registered proof set once (no baseline handling) and print, per function, paths / dead paths /
obligations and whatever is not discharged.  usage: tools/proofscan.py [PID ...]"""
import os
import sys
ROOT = os.path.dirname(os.path.dirname(os.path.abspath(__file__)))
sys.path.insert(0, ROOT)
from pyvc import prop as pv                      # noqa: E402

from tools.proofsets import sets             # noqa: E402

want = set(sys.argv[1:])
seen = set()
bad = 0
for pid, keys, mods, schema, invs, guards in sets():
    if want and pid not in want:
        continue
    keys = [k for k in keys if (k, tuple(mods)) not in seen]
    seen |= {(k, tuple(mods)) for k in keys}
    if not keys:
        continue
    for r in pv.run_proofs(keys, mods, schema, invs, guards, 'quick'):
        fails = [o for o in r['obligations'] if o['verdict'] != 'unsat']
        flag = '' if not (fails or r['unsupported'] or r['error'] or r.get('dead_paths')) else ' <<<'
        print('%-4s %-50s paths %3d dead %3d live %3d obligations %3d failing %d%s' % (
            pid, r['key'], r['paths'], r.get('dead_paths', -1), r.get('live_paths', -1), len(r['obligations']), len(fails), flag))
        if r['unsupported']:
            print('       out of reach:', r['unsupported'][:200])
        if r['error']:
            print('       ERROR', r['error'][-400:])
        for d in r.get('dead_list', [])[:6]:
            print('       dead path:', d)
        for o in fails[:8]:
            print('       %s %s' % (o['verdict'], o['name'][:200]))
        bad += len(fails)
        sys.stdout.flush()
print('not discharged in total:', bad)
