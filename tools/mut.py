#!/venv/bin/python
"""run checks against a scratch copy of /repo with a seeded change applied (leaves /repo alone).
usage: tools/mut.py <seeded dir> <PID> [<PID> ...]"""
import json, os, shutil, subprocess, sys, tempfile, time
ROOT = os.path.dirname(os.path.dirname(os.path.abspath(__file__)))
d = os.path.abspath(sys.argv[1]); pids = sys.argv[2:]
tmp = tempfile.mkdtemp(prefix='mut_')
try:
    repo = os.path.join(tmp, 'repo')
    subprocess.check_call(['git', 'clone', '-q', '/repo', repo])
    src = '/repo/gtwrap/matlab_wrapper/matlab_wrapper.tpl'
    if os.path.exists(src):
        shutil.copy(src, os.path.join(repo, 'gtwrap/matlab_wrapper/matlab_wrapper.tpl'))
    subprocess.check_call(['git', '-C', repo, 'apply', (os.path.join(d, 'patch_on_fixed_head.diff') if os.path.exists(os.path.join(d, 'patch_on_fixed_head.diff')) else os.path.join(d, 'patch.diff'))])
    env = dict(os.environ, VERIF_REPO=repo, PYTHONPATH=repo, VERIF_OUT=os.path.join(tmp, 'out'))
    res = {}
    for pid in pids:
        t0 = time.time()
        p = subprocess.run([os.path.join(ROOT, 'check'), pid], capture_output=True, text=True, env=env)
        lines = [l for l in p.stdout.split('\n') if l.startswith(('VIOLATION', 'KNOWN-FINDING'))]
        res[pid] = dict(exit=p.returncode, lines=lines[:6], wall=round(time.time() - t0, 1))
        print(os.path.basename(d), pid, 'exit', p.returncode, 'in %.0fs' % (time.time() - t0))
        for l in lines[:4]: print('   ', l[:230])
        if p.returncode not in (0, 1): print(p.stderr[-600:])
    json.dump(res, open(os.path.join(d, 'last_run.json'), 'w'), indent=1)
finally:
    shutil.rmtree(tmp, ignore_errors=True)
