#!/venv/bin/python
"""apply a seeded change to /repo, run the given checks, undo it.  usage: tools/seeded.py <seeded dir> <PID> [<PID> ...]"""
import json, os, subprocess, sys, time
d = os.path.abspath(sys.argv[1]); pids = sys.argv[2:]
st = subprocess.run(['git', '-C', '/repo', 'status', '--porcelain'], capture_output=True, text=True).stdout.strip()
assert not st, 'repo not clean: ' + st
subprocess.check_call(['git', '-C', '/repo', 'apply', (os.path.join(d, 'patch_on_fixed_head.diff') if os.path.exists(os.path.join(d, 'patch_on_fixed_head.diff')) else os.path.join(d, 'patch.diff'))])
out = {}
try:
    for pid in pids:
        t0 = time.time()
        p = subprocess.run(['/verif/check', pid], capture_output=True, text=True)
        lines = [l for l in p.stdout.split('\n') if l.startswith(('VIOLATION', 'KNOWN-FINDING'))]
        out[pid] = dict(exit=p.returncode, lines=lines, wall=round(time.time() - t0, 1), stderr=p.stderr[-500:])
        print(pid, 'exit', p.returncode, 'in %.0fs' % (time.time() - t0))
        for l in lines: print('   ', l[:260])
        if p.returncode not in (0, 1): print(p.stderr[-800:])
finally:
    subprocess.check_call(['git', '-C', '/repo', 'checkout', '--', '.'])
json.dump(out, open(os.path.join(d, 'last_run.json'), 'w'), indent=1)
