#!/venv/bin/python
"""Engine self-test of the frame checks: for every function under a proved contract, insert as first statement a write to a
string field of one of its parameter objects that the contract does not list in `modifies`
(`p.attr = p.attr + "_"`), on a scratch clone, and expect at least one obligation to fail (or the function to leave the
subset).  A function whose proof still goes through has a frame the engine does not check.
With --result the returned value is perturbed instead (str: + "_", bool: not, int: + 1): a contract that still verifies says
nothing about the result (listed as WEAK: type-level contracts are expected there, anything else is a vacuous postcondition).
usage: tools/framemut.py [--result] [PID ...]    (all proof sets, one subprocess each)
       tools/framemut.py --set <contract modules> <schema> <invs> <key> ...   (internal)"""
import ast
import importlib
import os
import shutil
import subprocess
import sys
import tempfile
ROOT = os.path.dirname(os.path.dirname(os.path.abspath(__file__)))
sys.path.insert(0, ROOT)


def pick_target(key, con, schema, repo):
    """(expression of the object, attribute) of a str field not covered by the contract's modifies"""
    fi = repo.functions[key]
    params = dict(con.params)
    if fi.cls and 'self' not in params and fi.kind != 'static':
        params['self'] = 'ref:' + fi.cls
    argnames = [a.arg for a in fi.node.args.args]
    mods = ' '.join(con.modifies)
    for name in argnames:
        ty = params.get(name)
        if not ty or not all(a.startswith('ref:') for a in ty.split('|')):
            continue
        cnames = [a[4:] for a in ty.split('|')]
        cname = cnames[0]
        if name == 'self' and fi.node.name == '__init__':
            continue

        def attrs_of(cn):
            out = {}
            for c in reversed(repo.mro(repo.resolve_class(cn) or cn)):
                out.update(schema.get(c, {}))
            return out
        common = [attrs_of(cn) for cn in cnames]
        for c in repo.mro(repo.resolve_class(cname) or cname):
            for attr, aty in schema.get(c, {}).items():
                if aty not in ('str', 'nestr') or not all(d.get(attr) in ('str', 'nestr') for d in common):
                    continue
                if ('%s.%s' % (name, attr)) in mods or ('heap:' + attr) in mods or ('fresh:' + attr) in mods or ('new:' + attr) in mods:
                    continue
                return name, attr
    return None


def perturb_returns(path, fnode, kind):
    """rewrite every `return e` of the function (not of nested functions) into a return of a different value"""
    src = open(path).read()
    lines = src.split('\n')
    rets = []

    def walk(n):
        for c in ast.iter_child_nodes(n):
            if isinstance(c, (ast.FunctionDef, ast.Lambda, ast.ClassDef)):
                continue
            if isinstance(c, ast.Return) and c.value is not None:
                rets.append(c.value)
            walk(c)
    walk(fnode)
    wrap = {'str': ('(', ') + "_"'), 'bool': ('not (', ')'), 'int': ('(', ') + 1')}[kind]
    for v in sorted(rets, key=lambda v: (-v.lineno, -v.col_offset)):
        l0, c0, l1, c1 = v.lineno - 1, v.col_offset, v.end_lineno - 1, v.end_col_offset
        lines[l1] = lines[l1][:c1] + wrap[1] + lines[l1][c1:]
        lines[l0] = lines[l0][:c0] + wrap[0] + lines[l0][c0:]
    open(path, 'w').write('\n'.join(lines))
    return len(rets)


def mutate(path, fnode, stmt):
    lines = open(path).read().split('\n')
    body = fnode.body
    first = body[0]
    if isinstance(first, ast.Expr) and isinstance(first.value, ast.Constant) and isinstance(first.value.value, str) and len(body) > 1:
        first = body[1]
    ln = first.lineno - 1
    indent = lines[ln][:len(lines[ln]) - len(lines[ln].lstrip())]
    lines.insert(ln, indent + stmt)
    open(path, 'w').write('\n'.join(lines))


def run_set(mods, schema_name, invs_name, keys):
    from pyvc.extract import Repo
    from pyvc import api
    import contracts.schema as sch
    for m in mods.split(','):
        importlib.import_module(m)
    schema = getattr(sch, schema_name)
    repo = Repo()
    for m in mods.split(','):
        for lf in getattr(sys.modules[m], 'LEMMA_FILES', []):
            repo.add_lemma_file(os.path.join(ROOT, lf))
    plan = []
    for k in keys:
        if k not in repo.functions or k not in api.CONTRACTS or ':' in repo.functions[k].path:
            continue          # lemmas live in /verif, not in the repository
        if MODE == 'result':
            rt = api.CONTRACTS[k].returns
            if rt not in ('str', 'bool', 'int', 'estr', 'nestr'):
                print('   skip %-55s returns %s' % (k, rt))
                continue
            plan.append((k, ('result', 'str' if rt in ('estr', 'nestr') else rt)))
            continue
        t = pick_target(k, api.CONTRACTS[k], schema, repo)
        if t is None:
            print('   skip %-55s no parameter object with a string field outside modifies' % k)
            continue
        plan.append((k, t))
    if not plan:
        return 0
    tmp = tempfile.mkdtemp(prefix='framemut_')
    holes = 0
    try:
        clone = os.path.join(tmp, 'repo')
        subprocess.check_call(['git', 'clone', '-q', os.environ.get('VERIF_REPO', '/repo'), clone])
        # insert bottom-up per file so that line numbers stay valid
        byfile = {}
        for k, (name, attr) in plan:
            fi = repo.functions[k]
            byfile.setdefault(fi.path, []).append((fi.node.lineno, fi.node, '%s.%s = %s.%s + "_"' % (name, attr, name, attr), attr))
        for path, items in byfile.items():
            rel = os.path.relpath(path, os.environ.get('VERIF_REPO', '/repo')) if os.path.isabs(path) else path
            for _, node, stmt, attr in sorted(items, key=lambda x: -x[0]):
                if MODE == 'result':
                    perturb_returns(os.path.join(clone, rel), node, attr)
                else:
                    mutate(os.path.join(clone, rel), node, stmt)
        code = ('import sys, importlib, os; sys.path.insert(0, %r)\n'
                'from pyvc.extract import Repo\nfrom pyvc.vc import Engine\nfrom pyvc.run import discharge\nfrom pyvc import api\n'
                'import contracts.schema as sch\n'
                'mods = %r.split(",")\n'
                'for m in mods: importlib.import_module(m)\n'
                'repo = Repo()\n'
                'for m in mods:\n'
                '    for lf in getattr(sys.modules[m], "LEMMA_FILES", []): repo.add_lemma_file(os.path.join(%r, lf))\n'
                'e = Engine(repo, getattr(sch, %r), api.CONTRACTS, api.SPECS, getattr(sch, %r) if %r else {})\n'
                'if any("c05" in m for m in mods):\n'
                '    import props.C05 as c5; e.hook_guards = [c5.GATEWAY]\n'
                'for k in %r:\n'
                '    fr = e.verify_function(k)\n'
                '    res = discharge([fr], timeout=6)\n'
                '    bad = [r for r in res if r.verdict != "unsat"]\n'
                '    frame = [r for r in bad if "frame" in r.ob.note or "unchanged" in r.ob.note or "changes only" in r.ob.note]\n'
                '    print("RES", k, len(res), len(bad), len(frame), (fr.unsupported or "")[:80].replace("\\n", " "))\n'
                % (ROOT, mods, ROOT, schema_name, invs_name, invs_name, [k for k, _ in plan]))
        env = dict(os.environ, VERIF_REPO=clone, PYTHONPATH=clone)
        out = subprocess.run([sys.executable, '-c', code], env=env, capture_output=True, text=True)
        tgt = dict(plan)
        for line in out.stdout.splitlines():
            if not line.startswith('RES '):
                continue
            _, k, n, bad, frame, *rest = line.split(' ', 5)
            verdict = 'caught' if int(bad) or (rest and rest[0].strip()) else ('WEAK' if MODE == 'result' else 'HOLE')
            holes += verdict in ('HOLE', 'WEAK')
            print('   %-6s %-55s %s %s.%s: %s of %s obligations fail (%s frame) %s' % (
                verdict, k, 'perturbed' if MODE == 'result' else 'write to', tgt[k][0], tgt[k][1], bad, n, frame, rest[0] if rest else ''))
        if out.returncode:
            print(out.stderr[-1500:])
            holes += 1
    finally:
        shutil.rmtree(tmp, ignore_errors=True)
    return holes


MODE = 'frame'
if '--result' in sys.argv:
    MODE = 'result'
    sys.argv.remove('--result')

if __name__ == '__main__':
    if len(sys.argv) > 1 and sys.argv[1] == '--set':
        sys.exit(1 if run_set(sys.argv[2], sys.argv[3], '' if sys.argv[4] == '-' else sys.argv[4], sys.argv[5:]) else 0)
    from tools.proofsets import sets
    rc = 0
    seen = set()
    for pid, keys, mods, schema, invs, guards in sets():
        keys = [k for k in keys if (k, tuple(mods)) not in seen]
        seen |= {(k, tuple(mods)) for k in keys}
        if not keys or (len(sys.argv) > 1 and pid not in sys.argv[1:]):
            continue
        print('==', pid)
        sys.stdout.flush()
        rc |= subprocess.call([sys.executable, __file__] + (['--result'] if MODE == 'result' else []) + ['--set', ','.join(mods), schema, invs or '-'] + keys)
    print('%s self-test:' % MODE, ('HOLES FOUND' if MODE == 'frame' else 'some contracts do not constrain the result') if rc else 'every change is caught')
    sys.exit(rc)
