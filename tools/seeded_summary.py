#!/venv/bin/python
"""Write seeded/SUMMARY.md from the last run of every seeded change (seeded/<id>/last_run.json, written by tools/mut.py)."""
import glob
import json
import os

ROOT = os.path.dirname(os.path.dirname(os.path.abspath(__file__)))
rows = []
for d in sorted(glob.glob(os.path.join(ROOT, 'seeded', 'C*-*'))):
    sid = os.path.basename(d)
    pid = sid.split('-')[0]
    meta = json.load(open(os.path.join(d, 'meta.json'))) if os.path.exists(os.path.join(d, 'meta.json')) else {}
    lr = os.path.join(d, 'last_run.json')
    res = json.load(open(lr)).get(pid) if os.path.exists(lr) else None
    if res is None:
        verdict, how = ('n/a (property not claimed)' if pid in ('C11', 'C18') else 'not run'), ''
    else:
        verdict = 'caught' if res['exit'] == 1 else ('MISSED' if res['exit'] == 0 else 'checker error %d' % res['exit'])
        v = [l for l in res['lines'] if l.startswith('VIOLATION')]
        how = ''
        if v:
            rest = v[0].split(' ', 3)[-1]
            how = ('obligation (no input found): ' if v[0].rstrip().endswith('no-failing-input-found') else 'failing input: ') + rest[:150]
    rows.append((sid, pid, verdict, res['wall'] if res else '', meta.get('summary', '')[:160].replace('\n', ' '), how.replace('|', '/')))
with open(os.path.join(ROOT, 'seeded', 'SUMMARY.md'), 'w') as f:
    f.write('# Seeded property-breaking changes and what the quick checks report on them\n\n')
    f.write('Each change was written by a fresh sub-agent from the property text alone, passes the 94 repository tests, and was confirmed '
            'natively (demo.py) before being kept.  `tools/mut.py seeded/<id> <PID>` applies it to a scratch clone and runs `./check <PID>`.\n\n')
    f.write('| change | property | result | wall s | what was changed | first report |\n|---|---|---|---|---|---|\n')
    for r in rows:
        f.write('| %s | %s | %s | %s | %s | %s |\n' % r)
    n = sum(1 for r in rows if r[2] == 'caught')
    f.write('\n%d of %d runnable changes caught.\n' % (n, sum(1 for r in rows if r[2] in ('caught', 'MISSED'))))
print('wrote seeded/SUMMARY.md')
