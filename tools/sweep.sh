#!/bin/bash
ROOT=$(cd "$(dirname "$0")/.." && pwd)
# run every registered check with several seeds on the unchanged tree; print anything that is not exit 0
# usage: tools/sweep.sh [--tier thorough] seed...
tier=quick
if [ "$1" == "--tier" ]; then tier=$2; shift 2; fi
out=$(mktemp -d /tmp/sweep_XXXX)
for sd in "$@"; do
  for pid in C01 C02 C03 C04 C06 C07 C08 C09 C10 C12 C13 C14 C15 C16 C17 C19 C05; do echo "$sd $pid"; done
done | xargs -P 4 -L 1 bash -c 'sd=$0; pid=$1; o=$(VERIF_SEED=$sd VERIF_OUT='$out'/$sd '$ROOT'/check $pid --tier '$tier' 2>&1); rc=$?; if [ $rc -ne 0 ]; then echo "seed=$sd $pid exit=$rc"; echo "$o" | grep -E "VIOLATION|CHECKER|Error|error" | head -5 | cut -c1-400; fi'
echo "sweep-done (evidence/replays under $out)"
