#!/bin/bash
# run every registered quick check with several seeds on the unchanged tree; print anything that is not exit 0
for sd in "$@"; do
  for pid in C01 C02 C03 C04 C06 C07 C08 C09 C10 C12 C13 C14 C15 C16 C17 C19 C05; do
    out=$(VERIF_SEED=$sd VERIF_OUT=/tmp/sweep_out /verif/check $pid 2>&1); rc=$?
    if [ $rc -ne 0 ]; then echo "seed=$sd $pid exit=$rc"; echo "$out" | grep -E "VIOLATION|CHECKER|Error|error" | head -5 | cut -c1-400; fi
  done
done
echo sweep-done
