#!/venv/bin/python
"""Developer driver: generate and discharge the obligations of some functions and print what is not discharged.
usage: tools/prove.py [--schema SCHEMA|TREE_SCHEMA] <contract modules, comma separated> <function key> ... [-v]
(the registered checks use pyvc.prop.run_proofs; this is the same engine without baseline / evidence handling)"""
import importlib
import os
import sys
sys.path.insert(0, os.path.dirname(os.path.dirname(os.path.abspath(__file__))))
from pyvc.extract import Repo            # noqa: E402
from pyvc.vc import Engine               # noqa: E402
from pyvc.run import discharge           # noqa: E402
from pyvc import api                     # noqa: E402
import contracts.schema as sch           # noqa: E402

args = sys.argv[1:]
schema_name = 'TREE_SCHEMA'
if args and args[0] == '--schema':
    schema_name = args[1]
    args = args[2:]
verbose = '-v' in args
args = [a for a in args if a != '-v']
for m in args[0].split(','):
    importlib.import_module(m)
e = Engine(Repo(), getattr(sch, schema_name), api.CONTRACTS, api.SPECS, sch.TREE_INVARIANTS if schema_name == 'TREE_SCHEMA' else {})
frs = []
for k in args[1:]:
    fr = e.verify_function(k)
    frs.append(fr)
    print(k, 'paths', len(fr.paths), 'out of reach:', fr.unsupported)
    if fr.unsupported_trace and verbose:
        print(fr.unsupported_trace[-4000:])
res = discharge(frs)
bad = 0
for r in res:
    if r.verdict != 'unsat':
        bad += 1
        print(r.verdict, r.solver, '%.2f' % r.time, r.func, r.path_idx, r.ob.kind, r.ob.lineno, r.ob.note[:140])
print('obligations', len(res), 'not discharged', bad, 'max time %.2f' % max([r.time for r in res] or [0]))
sys.exit(1 if bad or any(fr.unsupported for fr in frs) else 0)
