#!/bin/bash
ROOT=$(cd "$(dirname "$0")/.." && pwd)
# run every registered check once in the thorough tier on the unchanged tree (evidence to a scratch directory); print exit codes and times
out=$(mktemp -d /tmp/thorough_XXXX)
for pid in "${@:-C01 C02 C03 C04 C05 C06 C07 C08 C09 C10 C12 C13 C14 C15 C16 C17 C19}"; do echo $pid; done | tr ' ' '\n' | xargs -P 3 -I{} bash -c 't0=$(date +%s); o=$(VERIF_OUT='$out' '$ROOT'/check {} --tier thorough 2>&1); rc=$?; echo "{} exit=$rc in $(( $(date +%s) - t0 ))s"; if [ $rc -ne 0 ]; then echo "$o" | grep -E "VIOLATION|CHECKER|Error|error" | head -5 | cut -c1-400; fi'
echo "thorough-done (evidence under $out)"
