#!/bin/bash
# Self-check of a proof: apply a deliberate breakage to a scratch clone of /repo and show which obligations fail.
# usage: tools/mutcheck.sh <python file that edits the clone (cwd = clone)> [--schema S] <contract modules> <function key> ...
ROOT=$(cd "$(dirname "$0")/.." && pwd)
snip=$1; shift
tmp=$(mktemp -d /tmp/mutcheck_XXXX)
git clone -q /repo $tmp/repo && (cd $tmp/repo && /venv/bin/python $snip && git diff --stat | tail -1)
VERIF_REPO=$tmp/repo PYTHONPATH=$tmp/repo timeout 1800 $ROOT/tools/prove.py "$@" 2>&1 | grep -v "^WARN" | grep -E "obligations|^sat|^unknown|out of reach: [^N]" | cut -c1-220 | tail -8
rm -rf $tmp
