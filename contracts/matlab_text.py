"""Weak (type-only) contracts of the MATLAB text helpers.

They say: returns a str, modifies nothing.  That is all C05 needs from them (ids do not depend on
their text).  C06 / C10 strengthen some of them in their own modules.
"""
from pyvc.api import contract
import spec.c06_spec  # noqa: F401
import spec.names_spec  # noqa: F401
from contracts.schema import TYPE_ANY

ARGS = 'ref:ArgumentList'

contract('MatlabWrapper._wrap_args', params={'args': ARGS}, returns='str',
         under=['forall(0, len(args.args_list), lambda j: wf_tn_plain(args.args_list[j].ctype.typename))'],
         result_is='ml_args_decl(args.args_list, len(args.args_list))',
         loops={0: {'inv': ['arg_wrap == ml_args_decl(args.args_list, _i)']}})
contract('FormatMixin._format_type_name',
         params={'self': 'ref:MatlabWrapper', 'type_name': 'ref:Typename', 'separator': 'str', 'include_namespace': 'bool',
                 'is_constructor': 'bool', 'is_method': 'bool'},
         returns='str', under=['wf_tn_plain(type_name)'], raises={'ValueError': 'is_constructor and is_method'},
         result_is='ml_type_name(type_name, separator, include_namespace, is_constructor, is_method)',
         loops={0: {'inv': ['formatted_type_name == ml_ns_prefix(type_name.namespaces, _i, separator)'
                            " if name not in ('Matrix', 'Vector', 'Point2', 'Point3') else formatted_type_name == ''"]},
                1: {'inv': ["','.join(templates) == ml_args_join(type_name.instantiations, _i, include_namespace, is_constructor, is_method)",
                            'len(templates) == _i'], 'types': {'templates': 'list[str]'}},
                2: {'inv': ['formatted_type_name == ml_head(type_name, separator, include_namespace, is_constructor, is_method) + ml_args_cat(type_name.instantiations, _i, separator, is_constructor, is_method)']}})
contract('FormatMixin._format_return_type',
         params={'self': 'ref:MatlabWrapper', 'return_type': 'ref:ReturnType', 'include_namespace': 'bool', 'separator': 'str'}, returns='str',
         under=['wf_tn_plain(return_type.type1.typename)',
                'wf_tn_plain(return_type.type2.typename) if not isinstance(return_type.type2, str) else True'],
         result_is='ml_return_spelling(return_type, include_namespace, separator)')
contract('FormatMixin._format_class_name', params={'self': 'ref:MatlabWrapper', 'instantiated_class': 'ref:InstantiatedClass', 'separator': 'str'},
         returns='str', modifies=['alloc'],
         # the namespaces of the class (outermost first) and its name, joined by the separator (mirrors the slice of the joined list)
         result_is="old((''.join([separator + x for x in ([''] + ns_chain(instantiated_class.parent.parent) + "
                   "([instantiated_class.parent.name] if instantiated_class.parent.name != '' else []))]) + separator)[2 * len(separator):] "
                   "+ instantiated_class.name)")
METHODISH = 'ref:Constructor|ref:Method|ref:StaticMethod|ref:GlobalFunction'


def _list_of_arg(name):
    return lambda env: frozenset([('list', env[name].ty)])


def _list_of_list_of_elem(name):
    def f(env):
        ety = set()
        for a in env[name].ty:
            if isinstance(a, tuple) and a[0] == 'list':
                ety |= set(a[1])
        return frozenset([('list', frozenset([('list', frozenset(ety))]))])
    return f


contract('MatlabWrapper._expand_default_arguments',
         params={'method': METHODISH, 'save_backup': 'bool'},
         returns=_list_of_arg('method'), fresh=True,
         modifies=['heap:backup', 'alloc'],
         ensures=['len(result) >= 1'],
         raises={'AssertionError': None},
         assumed=True, note='type-level contract; the arity/backup clauses are in contracts/c06.py')

contract('MatlabWrapper._group_methods',
         params={'methods': 'list[%s]' % METHODISH},
         returns=_list_of_list_of_elem('methods'), fresh=True,
         modifies=['heap:backup', 'alloc'],
         ensures=['forall(0, len(result), lambda g: len(result[g]) >= 1 and is_fresh(result[g]))'],
         raises={'AssertionError': None},
         assumed=True, note='type-level contract; grouping clauses are in contracts/c06.py')

contract('MatlabWrapper.class_comment', params={'instantiated_class': 'ref:InstantiatedClass'}, returns='str',
         assumed=True, note='comment text only (no gateway call); type-level contract')
# C10: the properties block holds the pointer property, then one line per declared property in declared order
contract('MatlabWrapper.wrap_properties_block', params={'class_name': 'str', 'inst_class': 'ref:InstantiatedClass'},
         returns='str',
         result_is="'properties\\n' + '  ptr_' + class_name + ' = 0' + "
                   "(('\\n' + '\\n'.join(['  ' + p.name for p in inst_class.properties])) if len(inst_class.properties) > 0 else '') "
                   "+ '\\nend\\n'")
contract('MatlabWrapper.wrap_enum', params={'enum': 'ref:Enum'}, returns='tuple[str,str]',
         result_is="(enum.name + '.m', ml_enum_text(enum))")
contract('FormatMixin._clean_class_name', params={'self': 'ref:MatlabWrapper', 'instantiated_class': 'ref:InstantiatedClass'}, returns='str',
         result_is='instantiated_class.ctors[0].name if len(instantiated_class.ctors) != 0 else instantiated_class.name')

import contracts.c06  # noqa: E402,F401  (the C06 contracts of the guard / marshalling emitters)
