"""Contracts of the type-spelling functions (interface_parser/type.py and friends)."""
from pyvc.api import contract
import spec.names_spec  # noqa: F401

contract('Typename.to_cpp', returns='str', requires=['wf_tn(self)'], result_is='tn_cpp(self)')
contract('Typename.__repr__', returns='str', requires=['wf_tn(self)'], result_is='tn_cpp(self)')
contract('Typename.instantiated_name', returns='str', requires=['wf_tn_plain(self)'], result_is='tn_iname(self)',
         loops={0: {'inv': ['res == self.name + tn_iname_fold(self.instantiations, _i)']}})
contract('Typename.qualified_name', returns='str', requires=['isinstance(self.name, str)'], result_is='tn_qualified(self)')

contract('Type.to_cpp', returns='str', requires=['wf_ty(self)'], result_is='ty_cpp(self)')
contract('TemplatedType.to_cpp', returns='str', requires=['wf_ty(self)'], result_is='ty_cpp(self)')
contract('collect_namespaces',
         params={'obj': 'ref:Namespace|ref:Class|ref:Enum|ref:ForwardDeclaration|ref:GlobalFunction|ref:Variable'},
         returns='list[str]', fresh=True,
         result_is="[''] + ns_chain(obj.parent)", assumed=True,
         note='assumed (checked by the bounded tier on real trees): the while loop walks the parent chain; its '
              'proof needs sequence-concatenation associativity and a finite-tree rank, which the engine lacks')

PLAIN = 'forall(0, len(self.instantiations), lambda j: wf_tn_plain(self.instantiations[j]))'
contract('InstantiatedGlobalFunction.to_cpp', returns='str', requires=[PLAIN], result_is='igf_cpp(self)')
contract('GlobalFunction.to_cpp', returns='str', result_is='self.name')
