"""Contracts of the type-spelling functions (interface_parser/type.py and friends)."""
from pyvc.api import contract
import spec.names_spec  # noqa: F401

contract('Typename.to_cpp', returns='str', requires=['wf_tn(self)'], result_is='tn_cpp(self)')
contract('Typename.__repr__', returns='str', requires=['wf_tn(self)'], result_is='tn_cpp(self)')
contract('Typename.instantiated_name', returns='str', requires=['wf_tn_plain(self)'], result_is='tn_iname(self)',
         loops={0: {'inv': ['res == self.name + tn_iname_fold(self.instantiations, _i)']}})
contract('Typename.qualified_name', returns='str', requires=['isinstance(self.name, str)'], result_is='tn_qualified(self)')
