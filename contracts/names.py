"""Contracts of the type-spelling functions (interface_parser/type.py and friends)."""
from pyvc.api import contract
import spec.names_spec  # noqa: F401

contract('Typename.to_cpp', returns='str', requires=['wf_tn(self)'], result_is='tn_cpp(self)')
contract('Typename.__repr__', returns='str', requires=['wf_tn(self)'], result_is='tn_cpp(self)')
contract('Typename.instantiated_name', returns='str', requires=['wf_tn_plain(self)'], result_is='tn_iname(self)', ensures=["result != ''"],
         loops={0: {'inv': ['res == self.name + tn_iname_fold(self.instantiations, _i)']}})
contract('Typename.qualified_name', returns='str', requires=['isinstance(self.name, str)'], result_is='tn_qualified(self)')

contract('Type.to_cpp', returns='str', requires=['wf_ty(self)'], result_is='ty_cpp(self)')
contract('TemplatedType.to_cpp', returns='str', requires=['wf_ty(self)'], result_is='ty_cpp(self)')
contract('collect_namespaces',
         params={'obj': 'ref:Namespace|ref:Class|ref:Enum|ref:ForwardDeclaration|ref:GlobalFunction|ref:Variable'},
         returns='list[str]', fresh=True,
         result_is="[''] + ns_chain(obj.parent)",
         loops={0: {'inv': ['ns_chain(obj.parent) == ns_chain(ancestor) + namespaces'],
                    'types': {'ancestor': 'estr|ref:Namespace|ref:Class', 'namespaces': 'list[str]'}}})

PLAIN = 'forall(0, len(self.instantiations), lambda j: wf_tn_plain(self.instantiations[j]))'
contract('InstantiatedGlobalFunction.to_cpp', returns='str', requires=[PLAIN], result_is='igf_cpp(self)')
contract('GlobalFunction.to_cpp', returns='str', result_is='self.name')

contract('instantiate_name', params={'original_name': 'str', 'instantiations': 'list[ref:Typename]|tuple[ref:Typename]'}, returns='str',
         requires=['forall(0, len(instantiations), lambda j: wf_tn_plain(instantiations[j]))'],
         result_is='original_name + iname_suffix(instantiations, len(instantiations))',
         loops={0: {'inv': ["''.join(instantiated_names) == iname_suffix(instantiations, _i)", 'len(instantiated_names) == _i'],
                    'types': {'instantiated_names': 'list[str]'}}})

# ---- construction of a Typename from [ns..., name] (the parser's and the instantiator's entry point)
contract('Typename.__init__', params={'t': 'list[str]', 'instantiations': 'list[ref:Typename]|tuple[ref:Typename]'},
         returns='none', requires=['len(t) >= 1'],
         modifies=['self.name', 'self.namespaces', 'self.instantiations', 'alloc'],
         ensures=['self.name == t[len(t) - 1]',
                  "self.namespaces == (t[1:len(t) - 1] if (len(t) > 1 and t[0] == '') else t[0:len(t) - 1])",
                  'len(self.instantiations) == len(instantiations)',
                  'forall(0, len(instantiations), lambda j: self.instantiations[j] == instantiations[j])'])

IC_NAME = "(self.original.name + '<' + ', '.join([tn_cpp(i) for i in self.instantiations]) + '>' if self.original.template else self.original.name)"
contract('InstantiatedClass.cpp_typename', returns='ref:Typename', modifies=['alloc'],
         ensures=['is_fresh(result)', 'result.name == old(' + IC_NAME + ')', 'result.namespaces == old(ns_chain(self.parent))',
                  'len(result.instantiations) == 0'])
contract('InstantiatedClass.to_cpp', returns='str', modifies=['alloc'], result_is='ic_cpp(self)')
contract('InstantiatedConstructor.to_cpp', returns='str', requires=[PLAIN], result_is='im_cpp(self)')
contract('Class.namespaces', returns='list[str]', fresh=True, result_is="[''] + ns_chain(self.parent)")
contract('ForwardDeclaration.namespaces', returns='list[str]', fresh=True, result_is="[''] + ns_chain(self.parent)")
contract('Enum.namespaces', returns='list[str]', fresh=True, result_is="[''] + ns_chain(self.parent)")
contract('InstantiatedDeclaration.to_cpp', returns='str', requires=[PLAIN], modifies=['alloc'], result_is='old(idecl_cpp(self))')

# ---- C02: what instantiation leaves untouched (names, default text, order); the substituted type itself is
#      decided by the bounded oracle (instantiate_type is out of the engine's reach: deep copy, str.replace)
TYPE_ANY_ = 'ref:Type|ref:TemplatedType'
# instantiate_type works on a deep copy of the type.  Its frame contract ("changes no object that existed before") is ASSUMED, not
# proved: the attempt (DESIGN 11.5) showed that one write is not frame-safe -- in the `This::` branch the template arguments put in
# by the recursion can be the caller's own cpp_typename, whose namespaces are then overwritten when a namespace is called `This`
# (known finding C02-namespace-called-This) -- and the remaining obligations need invariants over the copied graph that the
# engine's deepcopy model (tools/prove.py shows them) does not carry through the loops.  Substitution and isolation are decided by
# the bounded reference oracles of C02 / C13.
contract('instantiate_type',
         params={'ctype': TYPE_ANY_, 'template_typenames': 'list[str]', 'instantiations': 'list[ref:Typename]',
                 'cpp_typename': 'ref:Typename', 'instantiated_class': 'ref:InstantiatedClass|none'},
         returns=TYPE_ANY_, modifies=['alloc'], assumed=True,
         note='type-level and frame (works on a deep copy); not proved -- a namespace called `This` breaks the frame (known finding), '
              'substitution and isolation are decided by the bounded oracles of C02 / C13')
contract('instantiate_args_list',
         params={'args_list': 'list[ref:Argument]', 'template_typenames': 'list[str]', 'instantiations': 'list[ref:Typename]',
                 'cpp_typename': 'ref:Typename'},
         returns='list[ref:Argument]', fresh=True, modifies=['alloc'],
         ensures=['len(result) == len(args_list)',
                  'forall(0, len(args_list), lambda j: is_fresh(result[j]) and result[j].name == args_list[j].name '
                  'and result[j].default == args_list[j].default)'],
         loops={0: {'inv': ['len(instantiated_args) == _i',
                            'forall(0, _i, lambda j: is_fresh(instantiated_args[j]) and instantiated_args[j].name == args_list[j].name '
                            'and instantiated_args[j].default == args_list[j].default)'],
                    'modifies': ['fresh:name', 'fresh:ctype', 'fresh:default', 'fresh:parent'],
                    'types': {'instantiated_args': 'list[ref:Argument]'}}})
contract('instantiate_return_type',
         params={'return_type': 'ref:ReturnType', 'template_typenames': 'list[str]', 'instantiations': 'list[ref:Typename]',
                 'cpp_typename': 'ref:Typename', 'instantiated_class': 'ref:InstantiatedClass|none'},
         returns='ref:ReturnType', modifies=['alloc'],
         ensures=['is_fresh(result)', "isinstance(result.type2, str) == isinstance(return_type.type2, str)",
                  "implies(isinstance(result.type2, str), result.type2 == '')", 'result.parent is None'])
contract('Enum.cpp_typename', returns='ref:Typename', modifies=['alloc'],
         ensures=['is_fresh(result)', 'result.name == old(self.name)', 'result.namespaces == old(ns_chain(self.parent))',
                  'len(result.instantiations) == 0'])
contract('Namespace.top_level', returns='ref:Namespace', result_is='ns_root(self)')
contract('is_scoped_template', params={'template_typenames': 'list[str]', 'str_arg_typename': 'str'}, returns='tuple[bool|str,int]',
         ensures=['result[1] == -1 or (0 <= result[1] and result[1] < len(template_typenames))',
                  # a scoped use names the template by its first component
                  "implies(result[1] >= 0, same(result[0], template_typenames[result[1]]) and '::' in str_arg_typename "
                  "and str_arg_typename.split('::')[0] == template_typenames[result[1]])",
                  'implies(result[1] == -1, same(result[0], False))'],
         loops={0: {'inv': []}})
