"""C02 / C08: the instantiated nodes are built from the right pieces (names, instantiation lists, substituted signatures)."""
from pyvc.api import contract
import spec.names_spec  # noqa: F401

INSTS = 'list[ref:Typename]|tuple[ref:Typename]'
PLAIN_I = 'forall(0, len(instantiations), lambda j: wf_tn_plain(instantiations[j]))'
NAME_OF = 'old(original.name + iname_suffix(instantiations, len(instantiations)))'

contract('InstantiatedMethod.__init__', params={'original': 'ref:Method', 'instantiations': INSTS}, returns='none',
         requires=[PLAIN_I],
         modifies=['self.original', 'self.instantiations', 'self.template', 'self.is_const', 'self.parent', 'self.name',
                   'self.return_type', 'self.args'],
         ensures=['self.original == original', 'same(self.instantiations, instantiations)',
                  # named by appending the capitalised instantiated names of the arguments
                  'self.name == ' + NAME_OF,
                  'self.return_type == old(original.return_type)', 'self.args == old(original.args)',
                  'self.template == old(original.template)', 'self.is_const == old(original.is_const)',
                  'self.parent == old(original.parent)'])
contract('InstantiatedStaticMethod.__init__', params={'original': 'ref:StaticMethod', 'instantiations': INSTS}, returns='none',
         requires=[PLAIN_I],
         modifies=['self.original', 'self.instantiations', 'self.template', 'self.parent', 'self.name', 'self.return_type', 'self.args'],
         ensures=['self.original == original', 'same(self.instantiations, instantiations)', 'self.name == ' + NAME_OF,
                  'self.return_type == old(original.return_type)', 'self.args == old(original.args)',
                  'self.template == old(original.template)', 'self.parent == old(original.parent)'])
contract('InstantiatedConstructor.__init__', params={'original': 'ref:Constructor', 'instantiations': INSTS}, returns='none',
         requires=[PLAIN_I],
         modifies=['self.original', 'self.instantiations', 'self.template', 'self.parent', 'self.name', 'self.args'],
         ensures=['self.original == original', 'same(self.instantiations, instantiations)', 'self.name == old(original.name)',
                  'self.args == old(original.args)', 'self.template == old(original.template)', 'self.parent == old(original.parent)'])

LISTI = 'list[ref:Typename]'
CONSTRUCT = dict(params={'original': 'ref:Method', 'typenames': 'list[str]', 'class_instantiations': LISTI,
                         'method_instantiations': LISTI, 'instantiated_args': 'list[ref:Argument]', 'parent': 'ref:InstantiatedClass'})
PLAIN_M = 'forall(0, len(method_instantiations), lambda j: wf_tn_plain(method_instantiations[j]))'
contract('InstantiatedMethod.construct', returns='ref:InstantiatedMethod', requires=[PLAIN_M],
         modifies=['alloc', 'heap:parent'],
         ensures=['is_fresh(result)', 'same(result.instantiations, method_instantiations)',
                  'result.name == old(original.name + iname_suffix(method_instantiations, len(method_instantiations)))',
                  'result.args.args_list == instantiated_args', 'result.parent == parent',
                  'result.is_const == old(original.is_const)', 'result.template == old(original.template)',
                  'is_fresh(result.original)', 'result.original.name == old(original.name)'],
         **CONSTRUCT)
contract('InstantiatedStaticMethod.construct', returns='ref:InstantiatedStaticMethod', requires=[PLAIN_M],
         modifies=['alloc', 'heap:parent'],
         params=dict(CONSTRUCT['params'], original='ref:StaticMethod'),
         ensures=['is_fresh(result)', 'same(result.instantiations, method_instantiations)',
                  'result.name == old(original.name + iname_suffix(method_instantiations, len(method_instantiations)))',
                  'result.args.args_list == instantiated_args', 'result.parent == parent',
                  'result.template == old(original.template)', 'is_fresh(result.original)', 'result.original.name == old(original.name)'])
contract('InstantiatedConstructor.construct', returns='ref:InstantiatedConstructor', requires=[PLAIN_M],
         modifies=['alloc', 'heap:parent'],
         params=dict(CONSTRUCT['params'], original='ref:Constructor'),
         ensures=['is_fresh(result)', 'same(result.instantiations, method_instantiations)',
                  # a constructor of an instantiated class carries the name of that instantiation
                  'result.name == old(parent.name)',
                  'result.args.args_list == instantiated_args', 'result.parent == parent',
                  'result.template == old(original.template)'])
GF_NAME = "(old(original.name) if not old(original.template) else ((old(original.name + iname_suffix(instantiations, len(instantiations)))) if new_name == '' else new_name))"
contract('InstantiatedGlobalFunction.__init__', params={'original': 'ref:GlobalFunction', 'instantiations': INSTS, 'new_name': 'str'},
         returns='none', requires=[PLAIN_I, 'implies(original.template, isinstance(instantiations, list))', 'not same(self, original)'],
         modifies=['self.original', 'self.instantiations', 'self.template', 'self.parent', 'self.name', 'self.return_type', 'self.args',
                   'alloc', 'heap:parent'],
         ensures=['self.original == original', 'same(self.instantiations, instantiations)', "self.template == ''",
                  'self.parent == old(original.parent)', 'self.name == ' + GF_NAME,
                  'implies(not old(original.template), self.return_type == old(original.return_type) and self.args == old(original.args))',
                  'implies(old(original.template), is_fresh(self.return_type) and is_fresh(self.args) '
                  'and len(self.args.args_list) == old(len(original.args.args_list)))',
                  'implies(old(original.template), forall(0, len(self.args.args_list), lambda j: '
                  'self.args.args_list[j].name == old(original.args.args_list[j].name) and '
                  'self.args.args_list[j].default == old(original.args.args_list[j].default)))'])
contract('InstantiatedDeclaration.__init__', params={'original': 'ref:ForwardDeclaration', 'instantiations': INSTS, 'new_name': 'str'},
         returns='none', requires=[PLAIN_I, 'isinstance(original.typename.name, str)', 'not same(self, original)'],
         modifies=['self.original', 'self.instantiations', 'self.name', 'self.typename', 'self.parent_type', 'self.is_virtual', 'self.parent'],
         ensures=['self.original == original', 'same(self.instantiations, instantiations)',
                  "self.name == (old(original.name + iname_suffix(instantiations, len(instantiations))) if new_name == '' else new_name)",
                  'self.parent == old(original.parent)'])
INST_KEYS = ['InstantiatedStaticMethod.construct', 'InstantiatedConstructor.construct', 'InstantiatedGlobalFunction.__init__',
             'InstantiatedDeclaration.__init__', 'InstantiatedMethod.__init__', 'InstantiatedStaticMethod.__init__', 'InstantiatedConstructor.__init__',
             'InstantiatedMethod.construct']

# ---- the instantiated class: name, pass-through parts, and the class invariants that Class.__init__ establishes.
#      The member lists come from InstantiationHelper.multilevel_instantiation (class object stored in an attribute,
#      itertools.product: out of the engine's reach) -- type-level contracts, assumed; the product order is a bounded clause.
TN_LIST = 'list[str]'
contract('InstantiatedClass.instantiate_parent_class', params={'typenames': TN_LIST}, returns='estr|ref:Typename',
         modifies=['alloc'],
         # a base class that is not templated passes through; a templated one goes through instantiate_type (assumed contract)
         ensures=['implies(not isinstance(old(self.original.parent_class), TemplatedType), same(result, old(self.original.parent_class)))'])
contract('InstantiatedClass.instantiate_ctors', params={'typenames': TN_LIST}, returns='list[ref:InstantiatedConstructor]', fresh=True,
         modifies=['alloc'], ensures=['forall(0, len(result), lambda j: result[j].name == self.name)'], assumed=True,
         note='multilevel_instantiation + InstantiatedConstructor.construct (proved: the constructor carries parent.name)')
contract('InstantiatedClass.instantiate_static_methods', params={'typenames': TN_LIST}, returns='list[ref:InstantiatedStaticMethod]',
         fresh=True, modifies=['alloc'], assumed=True, note='type-level')
contract('InstantiatedClass.instantiate_methods', params={'typenames': TN_LIST}, returns='list[ref:InstantiatedMethod]',
         fresh=True, modifies=['alloc'], assumed=True, note='type-level')
contract('InstantiatedClass.instantiate_operators', params={'typenames': TN_LIST}, returns='list[ref:Operator]',
         fresh=True, modifies=['alloc'], assumed=True, note='type-level')
contract('InstantiatedClass.instantiate_properties', params={'typenames': TN_LIST}, returns='list[ref:Variable]',
         fresh=True, modifies=['alloc'], assumed=True, note='type-level')
CLS_NAME = "(old(original.name + iname_suffix(instantiations, len(instantiations))) if new_name == '' else new_name)"
contract('InstantiatedClass.__init__', params={'original': 'ref:Class', 'instantiations': INSTS, 'new_name': 'str'}, returns='none',
         requires=[PLAIN_I, 'not same(self, original)'],
         raises={'AssertionError': 'template_arity(original.template) >= 0 and template_arity(original.template) != len(instantiations)'},
         modifies=['self.original', 'self.instantiations', 'self.template', 'self.is_virtual', 'self.parent', 'self.name',
                   'self.parent_class', 'self.ctors', 'self.static_methods', 'self.properties', 'self.operators', 'self.enums',
                   'self.methods', 'self.dunder_methods', 'alloc',
                   'heap:parent@Constructor', 'heap:parent@Method', 'heap:parent@StaticMethod', 'heap:parent@DunderMethod', 'heap:parent@Variable'],
         ensures=['self.original == original', 'same(self.instantiations, instantiations)', 'self.template is None',
                  'self.is_virtual == old(original.is_virtual)', 'self.parent == old(original.parent)',
                  # named by appending the capitalised argument names (or by the typedef's name)
                  'self.name == ' + CLS_NAME,
                  'self.enums == old(original.enums)', 'self.dunder_methods == old(original.dunder_methods)',
                  # a base class that is not templated passes through
                  'implies(not isinstance(old(original.parent_class), TemplatedType), same(self.parent_class, old(original.parent_class)))',
                  # a complete instantiation: one argument per template parameter
                  'old(template_arity(original.template)) < 0 or old(template_arity(original.template)) == len(instantiations)',
                  'forall(0, len(self.ctors), lambda j: self.ctors[j].name == self.name and self.ctors[j].parent == self)',
                  'forall(0, len(self.methods), lambda j: self.methods[j].parent == self)',
                  'forall(0, len(self.static_methods), lambda j: self.static_methods[j].parent == self)'])
INST_KEYS += ['InstantiatedClass.__init__']

