"""Well-formedness schema of the objects the functions under contract work on.

These attribute types are *assumptions* (trusted base item 7 in DESIGN.md): typed
fields of parse-tree / instantiated-tree / wrapper objects.  They are checked at
run time on real objects by the bounded tier (pyvc/wfcheck.py, wired into C01 and C08) and are established by
the node constructors that are themselves under contract (C01).
"""

TYPE_ANY = "ref:Type|ref:TemplatedType"
MEMBER = "none|str|ref:Constructor|ref:Method|ref:StaticMethod|ref:Variable|ref:GlobalFunction"
CLS_OR_FN = "ref:InstantiatedClass|ref:GlobalFunction"
MAP_ENTRY = "tuple[str,%s,str,str,%s]" % (CLS_OR_FN, MEMBER)

SCHEMA = {
    # ---------------------------------------------------------------- parser nodes
    'Typename': {
        'name': 'nestr',                 # (before the repair 38868e9 instantiate_type stored a Typename object here)
        'namespaces': 'list[str]',
        'instantiations': 'list[ref:Typename]',
    },
    'Type': {
        'typename': 'ref:Typename',
        'is_const': 'str', 'is_shared_ptr': 'str', 'is_ptr': 'str', 'is_ref': 'str',
        'is_basic': 'bool',
    },
    'TemplatedType': {
        'typename': 'ref:Typename',
        'template_params': 'list[%s]' % TYPE_ANY,
        'is_const': 'str', 'is_shared_ptr': 'str', 'is_ptr': 'str', 'is_ref': 'str', 'is_basic': 'bool',
    },
    'Argument': {
        'ctype': TYPE_ANY, 'name': 'nestr', 'default': 'none|str', 'parent': 'any',
    },
    'ArgumentList': {
        'args_list': 'list[ref:Argument]', 'parent': 'any', 'backup': 'ref:ArgumentList',
    },
    'ReturnType': {
        'type1': TYPE_ANY, 'type2': 'estr|ref:Type', 'parent': 'any',
    },
    'Template': {
        'typenames': 'list[str]', 'instantiations': 'list[list[ref:Typename]]',
    },
    'Method': {
        'template': 'none|estr|ref:Template', 'name': 'nestr', 'return_type': 'ref:ReturnType',
        'args': 'ref:ArgumentList', 'is_const': 'str', 'parent': 'estr|ref:Class',
    },
    'StaticMethod': {
        'template': 'none|estr|ref:Template', 'name': 'nestr', 'return_type': 'ref:ReturnType',
        'args': 'ref:ArgumentList', 'parent': 'estr|ref:Class',
    },
    'Constructor': {
        'template': 'none|estr|ref:Template', 'name': 'nestr', 'args': 'ref:ArgumentList', 'parent': 'estr|ref:Class',
    },
    'Operator': {
        'name': 'nestr', 'operator': 'str', 'return_type': 'ref:ReturnType', 'args': 'ref:ArgumentList',
        'is_const': 'str', 'is_unary': 'bool', 'parent': 'estr|ref:Class',
    },
    'DunderMethod': {'name': 'nestr', 'args': 'ref:ArgumentList', 'parent': 'estr|ref:Class'},
    'Variable': {'ctype': TYPE_ANY, 'name': 'nestr', 'default': 'none|str', 'parent': 'estr|ref:Class|ref:Namespace'},
    'Enumerator': {'name': 'nestr'},
    'Enum': {'name': 'nestr', 'enumerators': 'list[ref:Enumerator]', 'parent': 'estr|ref:Class|ref:Namespace'},
    'Include': {'header': 'str', 'parent': 'estr|ref:Namespace'},
    'ForwardDeclaration': {'name': 'nestr', 'typename': 'ref:Typename', 'parent_type': 'estr|ref:Typename',
                           'is_virtual': 'str', 'parent': 'estr|ref:Namespace'},
    'TypedefTemplateInstantiation': {'typename': 'ref:Typename', 'new_name': 'str', 'parent': 'estr|ref:Namespace'},
    'GlobalFunction': {
        'name': 'nestr', 'return_type': 'ref:ReturnType', 'args': 'ref:ArgumentList',
        'template': 'none|estr|ref:Template', 'parent': 'estr|ref:Namespace',
    },
    'Class': {
        'template': 'none|estr|ref:Template', 'is_virtual': 'str', 'name': 'nestr',
        'parent_class': 'estr|ref:Typename|ref:TemplatedType',
        'ctors': 'list[ref:Constructor]', 'methods': 'list[ref:Method]',
        'static_methods': 'list[ref:StaticMethod]', 'dunder_methods': 'list[ref:DunderMethod]',
        'properties': 'list[ref:Variable]', 'operators': 'list[ref:Operator]', 'enums': 'list[ref:Enum]',
        'parent': 'estr|ref:Namespace',
    },
    'Namespace': {'name': 'str', 'parent': 'estr|ref:Namespace',
                  'content': 'list[ref:Class|ref:GlobalFunction|ref:Enum|ref:Include|ref:ForwardDeclaration|'
                             'ref:TypedefTemplateInstantiation|ref:Variable|ref:Namespace]'},
    'Class.Members': {'ctors': 'list[ref:Constructor]', 'methods': 'list[ref:Method]', 'static_methods': 'list[ref:StaticMethod]',
                      'dunder_methods': 'list[ref:DunderMethod]', 'properties': 'list[ref:Variable]',
                      'operators': 'list[ref:Operator]', 'enums': 'list[ref:Enum]'},
    'Template.TypenameAndInstantiations': {'typename': 'str', 'instantiations': 'list[ref:Typename]'},
    # ---------------------------------------------------------------- instantiated nodes
    'InstantiatedClass': {'original': 'ref:Class', 'instantiations': 'list[ref:Typename]'},
    'InstantiatedMethod': {'original': 'ref:Method', 'instantiations': 'list[ref:Typename]'},
    'InstantiatedStaticMethod': {'original': 'ref:StaticMethod', 'instantiations': 'list[ref:Typename]'},
    'InstantiatedConstructor': {'original': 'ref:Constructor', 'instantiations': 'list[ref:Typename]'},
    'InstantiatedGlobalFunction': {'original': 'ref:GlobalFunction', 'instantiations': 'list[ref:Typename]'},
    'InstantiatedDeclaration': {'original': 'ref:ForwardDeclaration', 'instantiations': 'list[ref:Typename]'},
    # ---------------------------------------------------------------- wrappers
    'MatlabWrapper': {
        'module_name': 'str', 'top_module_namespace': 'any', 'ignore_classes': 'any', 'verbose': 'bool',
        'use_boost_serialization': 'bool',
        'wrapper_id': 'int', 'wrapper_map': 'dict[int,%s]' % MAP_ENTRY,
        'includes': 'list[ref:Include]', 'classes': 'list[ref:InstantiatedClass]', 'classes_elems': 'dict[ref:InstantiatedClass,int]',
        'global_function_id': 'int', 'content': 'list[any]', 'wrapper_file_headers': 'str',
    },
    'PybindWrapper': {
        'module_name': 'str', 'top_module_namespaces': 'list[str]', 'use_boost_serialization': 'bool',
        'ignore_classes': 'list[str]', '_serializing_classes': 'list[str]', 'module_template': 'str',
        'xml_source': 'str', 'xml_parser': 'ref:XMLDocParser',
    },
    'XMLDocParser': {'_memory': 'dict[str,int]', '_verbose': 'bool'},
}


def tree_schema():
    """Stricter typing for *instantiated trees handed to the generators*: every node hangs in a
    Namespace (or Class), members know their class.  Established by Module.parseString +
    instantiate_namespace (C01/C08 contracts) and checked at run time by the bounded tier."""
    import copy
    s = copy.deepcopy(SCHEMA)
    node = ('ref:Include|ref:Namespace|ref:Enum|ref:InstantiatedClass|ref:InstantiatedDeclaration|'
            'ref:GlobalFunction|ref:Variable|ref:ForwardDeclaration|ref:TypedefTemplateInstantiation|ref:Class')
    s['Namespace']['content'] = 'list[%s]' % node
    for c in ('Class', 'GlobalFunction', 'Enum', 'Include', 'ForwardDeclaration', 'TypedefTemplateInstantiation'):
        s[c]['parent'] = 'ref:Namespace'
    s['Variable']['parent'] = 'ref:Namespace|ref:Class'
    for c in ('Method', 'StaticMethod', 'Constructor', 'DunderMethod'):
        s[c]['parent'] = 'ref:Class'
    # Class.__init__ links constructors, methods, static / dunder methods and properties to the class; operators and
    # class-scoped enums keep parent == '' (found by the run-time schema check, pyvc/wfcheck.py)
    s['Operator']['parent'] = 'estr|ref:Class'
    s['Enum']['parent'] = 'estr|ref:Namespace|ref:Class'
    s['InstantiatedClass']['parent_class'] = 'estr|ref:Typename'   # instantiate_parent_class returns the typename
    for c in ('InstantiatedMethod', 'InstantiatedStaticMethod', 'InstantiatedConstructor'):
        s[c]['parent'] = 'ref:InstantiatedClass'                   # InstantiationHelper passes the instantiated class
    s['MatlabWrapper']['ignore_classes'] = 'list[str]|tuple[str]'
    s['MatlabWrapper']['content'] = 'list[any]'
    return s


TREE_SCHEMA = tree_schema()

# class invariants of tree objects handed to the generators (assumed; see tree_schema)
_PLAIN = 'forall(0, len(self.instantiations), lambda j: wf_tn_plain(self.instantiations[j]))'
TREE_INVARIANTS = {
    'InstantiatedGlobalFunction': [_PLAIN], 'InstantiatedClass': [_PLAIN], 'InstantiatedMethod': [_PLAIN],
    'InstantiatedStaticMethod': [_PLAIN], 'InstantiatedConstructor': [_PLAIN], 'InstantiatedDeclaration': [_PLAIN],
    'Type': ['wf_ty(self)'], 'TemplatedType': ['wf_ty(self)'], 'Typename': ['wf_tn(self)'],
}
