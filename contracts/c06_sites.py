"""C06 view of the MATLAB call sites: the text of the gateway (contracts/c05.py has the id view of the same functions).
Imported last by props/C06.py, so these contracts replace the C05 ones for the C06 proofs only."""
from pyvc.api import contract
import spec.c06_spec  # noqa: F401

PLAIN_OV = ('forall(0, len(function), lambda g: forall(0, len(function[g].args.args_list), '
            'lambda j: wf_tn_plain(function[g].args.args_list[j].ctype.typename)))')
PLAIN_RET = 'forall(0, len(function), lambda g: ml_ret_plain(function[g].return_type))'
contract('MatlabWrapper.wrap_global_function', params={'function': 'list[ref:GlobalFunction]'}, returns='str',
         requires=['len(function) >= 1'], under=[PLAIN_OV, PLAIN_RET],
         modifies=['self.wrapper_id', 'dict(self.wrapper_map)'],
         ensures=['self.wrapper_id == old(self.wrapper_id) + len(function)',
                  "result == 'function varargout = ' + function[0].name + '(varargin)\\n' "
                  "+ old(ml_function_branches(self.module_name, function, len(function), self.wrapper_id)) "
                  "+ textwrap.indent('else\\n  error(\\'Arguments do not match any overload of function ' + function[0].name + '\\');\\nend', prefix='      ') "
                  "+ '\\nend\\n'"],
         loops={0: {'inv': ['self.wrapper_id == old(self.wrapper_id) + _i',
                            'param_wrap == old(ml_function_branches(self.module_name, function, _i, self.wrapper_id))'],
                    'modifies': ['self.wrapper_id', 'dict(self.wrapper_map)']}})
C06_SITE_KEYS = ['MatlabWrapper.wrap_global_function']
