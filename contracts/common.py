"""Contracts shared by several properties (parser-tree accessors)."""
from pyvc.api import contract

HAS_PARENT = 'ref:Namespace|ref:Class|ref:Enum|ref:ForwardDeclaration|ref:GlobalFunction|ref:Variable'

contract('collect_namespaces',
         params={'obj': HAS_PARENT}, returns='list[str]', fresh=True,
         ensures=['len(result) >= 1', "result[0] == ''"],
         note='weak form (length and leading empty component); the exact chain is specified in contracts/names.py')
