"""C06 contracts (MATLAB overload guards, default expansion, marshalling) -- the part within the engine's reach."""
from pyvc.api import contract
import spec.c06_spec  # noqa: F401

TY = 'ref:Type|ref:TemplatedType'
contract('CheckMixin.can_be_pointer', params={'arg_type': TY}, returns='bool', result_is='can_be_pointer(arg_type)')
contract('CheckMixin.is_ref', params={'arg_type': TY}, returns='bool|str', result_is='passes_by_reference(arg_type)')
contract('CheckMixin.is_ptr', params={'arg_type': TY}, returns='str', result_is='arg_type.is_ptr')
contract('CheckMixin.is_shared_ptr', params={'arg_type': TY}, returns='str', result_is='arg_type.is_shared_ptr')
contract('MatlabWrapper._return_count', params={'return_type': 'ref:ReturnType'}, returns='int',
         result_is="1 if return_type.type2 == '' else 2")
contract('MatlabWrapper._format_varargout', params={'return_type': 'ref:ReturnType', 'return_type_formatted': 'str'}, returns='str',
         result_is='varargout_text(return_type, return_type_formatted)')
contract('MatlabWrapper._wrap_list_variable_arguments', params={'args': 'ref:ArgumentList'}, returns='str',
         result_is='varargin_list(len(args.args_list), len(args.args_list))',
         loops={0: {'inv': ['var_list_wrap == varargin_list(len(args.args_list), _i)', 'first == (_i == 0)']}})

CLS = 'ref:InstantiatedClass|none'
STRNAME = 'isinstance(arg_type.typename.name, str)'
contract('CheckMixin.is_class_enum', params={'arg_type': TY, 'class_': CLS}, returns='bool', under=[STRNAME], result_is='ml_is_class_enum(arg_type, class_)')
contract('CheckMixin.is_global_enum', params={'arg_type': TY, 'class_': CLS}, returns='bool',
         under=[STRNAME, 'implies(class_ is not None, not isinstance(class_.parent, str))'],
         result_is='ml_is_global_enum(arg_type, class_)')
contract('CheckMixin.is_enum', params={'arg_type': TY, 'class_': CLS}, returns='bool',
         under=[STRNAME, 'implies(class_ is not None, not isinstance(class_.parent, str))'],
         result_is='ml_is_class_enum(arg_type, class_) or ml_is_global_enum(arg_type, class_)')

PLAIN_ARGS = 'forall(0, len(args.args_list), lambda j: wf_tn_plain(args.args_list[j].ctype.typename))'
contract('MatlabWrapper._wrap_variable_arguments', params={'args': 'ref:ArgumentList', 'wrap_datatypes': 'bool'}, returns='str',
         under=[PLAIN_ARGS],
         result_is='ml_guards(args.args_list, len(args.args_list), not wrap_datatypes)',
         loops={0: {'inv': ['var_arg_wrap == ml_guards(args.args_list, _i, not wrap_datatypes)']}})
contract('MatlabWrapper._wrap_method_check_statement', params={'args': 'ref:ArgumentList'}, returns='str',
         under=[PLAIN_ARGS],
         result_is="'if length(varargin) == ' + int_str(len(args.args_list)) + ml_guards(args.args_list, len(args.args_list), False) + '\\n'",
         loops={0: {'inv': ["check_statement == 'if length(varargin) == ' + int_str(len(args.args_list)) + ml_guards(args.args_list, _i, False)",
                            'arg_id == _i + 1']}})

PARENT_OK = 'implies(instantiated_class is not None, not isinstance(instantiated_class.parent, str))'
contract('MatlabWrapper._unwrap_argument', params={'arg': 'ref:Argument', 'arg_id': 'int', 'instantiated_class': CLS}, returns='tuple[str,str]',
         under=['wf_tn_plain(arg.ctype.typename)', PARENT_OK],
         result_is='(ml_unwrap_type(arg.ctype, ml_is_enum(arg.ctype, instantiated_class)), '
                   'ml_unwrap_text(arg.ctype, arg_id, ml_is_enum(arg.ctype, instantiated_class)))')

contract('MatlabWrapper._wrapper_unwrap_arguments', params={'args': 'ref:ArgumentList', 'arg_id': 'int', 'instantiated_class': CLS},
         returns='tuple[str,str]',
         under=[PLAIN_ARGS, PARENT_OK,
                'forall(0, len(args.backup.args_list), lambda j: isinstance(args.backup.args_list[j].ctype.typename.name, str))'],
         result_is='(ml_call_args(args.backup.args_list, len(args.backup.args_list), args.args_list, instantiated_class), '
                   'ml_unwrap_body(args.args_list, len(args.args_list), arg_id, instantiated_class))',
         loops={0: {'inv': ['body_args == ml_unwrap_body(args.args_list, _i, old(arg_id), instantiated_class)', 'arg_id == old(arg_id) + _i']},
                1: {'inv': ['params == ml_call_args(args.backup.args_list, _i, args.args_list, instantiated_class)']}})

# ---- returns: how the result of the call is handed back (single / pair / void / object / enum)
contract('MatlabWrapper.wrap_collector_function_shared_return',
         params={'return_type_name': 'ref:Typename', 'shared_obj': 'str', 'func_id': 'int', 'new_line': 'bool'}, returns='str',
         under=['wf_tn_plain(return_type_name)'],
         result_is='ml_shared_return(return_type_name, shared_obj, func_id, new_line)')
contract('MatlabWrapper.wrap_collector_function_return_types', params={'return_type': TY, 'func_id': 'int'}, returns='str',
         under=['wf_tn_plain(return_type.typename)'],
         result_is='ml_pair_member(return_type, func_id)')
contract('Namespace.full_namespaces', returns='list[str]', fresh=True,
         result_is="[''] + ns_chain(self.parent) + ([self.name] if self.name != '' else [])")
contract('MatlabWrapper._collector_return', params={'obj': 'str', 'ctype': TY, 'instantiated_class': CLS}, returns='str',
         modifies=['alloc'],
         under=['wf_tn_plain(ctype.typename)',
                'implies(instantiated_class is not None, not isinstance(instantiated_class.parent, str))',
                '(len(ctype.template_params) >= 1 and wf_tn_plain(ctype.template_params[0].typename)) if isinstance(ctype, TemplatedType) else True'],
         result_is='old(ml_single_return(obj, ctype, instantiated_class))')
contract('FormatMixin._format_static_method', params={'self': 'ref:MatlabWrapper', 'static_method': 'ref:InstantiatedStaticMethod', 'separator': 'str'},
         returns='str', modifies=['alloc'], result_is='old(ic_cpp(static_method.parent) + separator)')
contract('FormatMixin._format_global_function', params={'self': 'ref:MatlabWrapper', 'function': 'ref:GlobalFunction', 'separator': 'str'},
         returns='str', modifies=['alloc'],
         result_is="old((''.join([separator + x for x in ([''] + ns_chain(function.parent.parent) + ([function.parent.name] if function.parent.name != '' else []))]) + separator)[2 * len(separator):])")
METHODLIKE = 'ref:InstantiatedMethod|ref:InstantiatedStaticMethod|ref:GlobalFunction'
RET_UNDER = ['forall(0, len(method.args.args_list), lambda j: wf_tn_plain(method.args.args_list[j].ctype.typename))',
             'implies(instantiated_class is not None, not isinstance(instantiated_class.parent, str))',
             'forall(0, len(method.args.backup.args_list), lambda j: isinstance(method.args.backup.args_list[j].ctype.typename.name, str))',
             'wf_tn_plain(method.return_type.type1.typename)',
             '(len(method.return_type.type1.template_params) >= 1 and wf_tn_plain(method.return_type.type1.template_params[0].typename)) '
             'if isinstance(method.return_type.type1, TemplatedType) else True',
             "wf_tn_plain(method.return_type.type2.typename) if not isinstance(method.return_type.type2, str) else True",
             ]
contract('MatlabWrapper.wrap_collector_function_return', params={'method': METHODLIKE, 'instantiated_class': CLS}, returns='str',
         modifies=['alloc'], under=RET_UNDER,
         result_is='old(ml_return_body(method, instantiated_class))')

C06_KEYS = ['CheckMixin.is_class_enum', 'CheckMixin.is_global_enum', 'CheckMixin.is_enum', 'CheckMixin.can_be_pointer', 'CheckMixin.is_ref', 'CheckMixin.is_ptr', 'CheckMixin.is_shared_ptr',
            'MatlabWrapper._return_count', 'MatlabWrapper._format_varargout', 'MatlabWrapper._wrap_list_variable_arguments',
            'MatlabWrapper._wrap_variable_arguments', 'MatlabWrapper._wrap_method_check_statement', 'FormatMixin._format_type_name', 'MatlabWrapper._unwrap_argument', 'MatlabWrapper._wrapper_unwrap_arguments',
            'Namespace.full_namespaces', 'FormatMixin._format_static_method', 'FormatMixin._format_global_function',
            'MatlabWrapper.wrap_collector_function_shared_return', 'MatlabWrapper.wrap_collector_function_return_types',
            'MatlabWrapper._collector_return', 'MatlabWrapper.wrap_collector_function_return',
            'FormatMixin._format_return_type', 'MatlabWrapper._wrap_args']

# ---- C10: preamble of the MEX source (collectors, clean-up, RTTI registry)
contract('MatlabWrapper.get_class_name', params={'cls': 'ref:InstantiatedClass'}, returns='tuple[str,str]', modifies=['alloc'],
         result_is='(old(ml_pre_name(cls)), old(ml_pre_cpp(cls)))')
contract('CheckMixin._has_serialization', params={'self': 'ref:MatlabWrapper', 'cls': 'ref:InstantiatedClass'}, returns='bool',
         result_is="exists(0, len(cls.methods), lambda j: cls.methods[j].name == 'serializable' or cls.methods[j].name == 'serialize')",
         loops={0: {'inv': ["not exists(0, _i, lambda j: cls.methods[j].name == 'serializable' or cls.methods[j].name == 'serialize')"]}})
contract('MatlabWrapper.generate_preamble', returns='tuple[str,str,str,str,str]', modifies=['alloc'],
         ensures=['result[2] == old(ml_collectors(self, self.classes, len(self.classes)))',
                  'result[3] == old(WrapperTemplate.delete_all_objects.format(delete_objs=ml_deletes(self, self.classes, len(self.classes))))',
                  'result[4] == old(WrapperTemplate.rtti_register.format(module_name=self.module_name, '
                  'rtti_classes=ml_rtti(self, self.classes, len(self.classes))))'],
         loops={0: {'inv': ['typedef_collectors == old(ml_collectors(self, self.classes, _i))',
                            'delete_objs == old(ml_deletes(self, self.classes, _i))',
                            'rtti_classes == old(ml_rtti(self, self.classes, _i))'],
                    'types': {'typedef_instances': 'list[str]', 'boost_class_export_guid': 'str'}},
                1: {'inv': []}})
C10_KEYS = ['MatlabWrapper.get_class_name', 'CheckMixin._has_serialization', 'MatlabWrapper.generate_preamble']
