"""C05 contracts: MATLAB call-site ids <-> MEX dispatch (see DESIGN.md section 7, C05)."""
from pyvc.api import contract
from contracts.schema import CLS_OR_FN, MEMBER
import spec.c05_spec  # noqa: F401  (registers the spec functions)

ROLE = 'tuple[str,%s,%s,str]' % (CLS_OR_FN, MEMBER)
GHOST = {'siteCount': 'arr[Int,Int]', 'siteRole': 'arr[Int,Val:%s]' % ROLE}
INV_MOD = ['self.wrapper_id', 'dict(self.wrapper_map)', 'ghost:siteCount', 'ghost:siteRole:arr[Int,Val:%s]' % ROLE]
LOOP_MOD = ['wrapper_id', 'DICT', 'ghost:siteCount', 'ghost:siteRole']
GATEWAY = r'\{(wrapper|wrapper_name|module_name)\}(_wrapper)?\(\{'

contract('MatlabWrapper._update_wrapper_id',
         params={'collector_function': 'none|tuple[str,%s,str,%s]' % (CLS_OR_FN, MEMBER),
                 'id_diff': 'int', 'function_name': 'none|str'},
         returns='int',
         modifies=['self.wrapper_id', 'dict(self.wrapper_map)'],
         ensures=[
             'self.wrapper_id == old(self.wrapper_id) + 1',
             'result == old(self.wrapper_id)',
             'implies(collector_function is None, dom(self.wrapper_map) == old(dom(self.wrapper_map)))',
             'implies(collector_function is None, vals(self.wrapper_map) == old(vals(self.wrapper_map)))',
             'implies(collector_function is not None, dom(self.wrapper_map) == old(dom(self.wrapper_map)).set(old(self.wrapper_id), True))',
             'implies(collector_function is not None, vals(self.wrapper_map) == old(vals(self.wrapper_map)).set(old(self.wrapper_id), self.wrapper_map[old(self.wrapper_id)]))',
             'implies(collector_function is not None, self.wrapper_map[old(self.wrapper_id)][0] == collector_function[0])',
             'implies(collector_function is not None, same(self.wrapper_map[old(self.wrapper_id)][1], collector_function[1]))',
             'implies(collector_function is not None, self.wrapper_map[old(self.wrapper_id)][2] == collector_function[2])',
             'implies(collector_function is not None, same(self.wrapper_map[old(self.wrapper_id)][4], collector_function[3]))',
             'implies(collector_function is not None and function_name is not None, self.wrapper_map[old(self.wrapper_id)][3] == function_name + "_" + int_str(old(self.wrapper_id) + id_diff))',
             'implies(collector_function is not None and function_name is None and isinstance(collector_function[1], InstantiatedClass), self.wrapper_map[old(self.wrapper_id)][3] == collector_function[0] + collector_function[1].name + "_" + collector_function[2] + "_" + int_str(old(self.wrapper_id) + id_diff))',
             'implies(collector_function is not None and function_name is None and not isinstance(collector_function[1], InstantiatedClass), self.wrapper_map[old(self.wrapper_id)][3] == collector_function[1].name + "_" + int_str(old(self.wrapper_id) + id_diff))',
         ])

contract('MatlabWrapper._wrapper_name', returns='str', result_is='self.module_name + "_wrapper"')

contract('MatlabWrapper.wrap_class_deconstructor',
         params={'namespace_name': 'str', 'inst_class': 'ref:InstantiatedClass'},
         returns='str', ghost=GHOST,
         requires=['c05_inv(self)', 'isinstance(inst_class.parent, Namespace)'],
         modifies=INV_MOD,
         ensures=['c05_inv(self)', 'self.wrapper_id >= old(self.wrapper_id)'],
         holes=[dict(match=r'\{wrapper\}\(\{num\}, obj\.ptr_', key='num', count='siteCount',
                     set={'siteRole': "('deconstructor', inst_class, None, namespace_name + inst_class.name + '_deconstructor')"})])
