"""C05 contracts: MATLAB call-site ids <-> MEX dispatch (see DESIGN.md section 7, C05)."""
from pyvc.api import contract
from contracts.schema import CLS_OR_FN, MEMBER
import spec.c05_spec  # noqa: F401  (registers the spec functions)

ROLE = 'tuple[str,%s,%s,str,bool]' % (CLS_OR_FN, MEMBER)
GHOST = {'siteCount': 'arr[Int,Int]', 'siteRole': 'arr[Int,Val:%s]' % ROLE}
INV_MOD = ['self.wrapper_id', 'dict(self.wrapper_map)', 'ghost:siteCount', 'ghost:siteRole:arr[Int,Val:%s]' % ROLE]
LOOP_MOD = INV_MOD
GATEWAY = r'\{(wrapper|wrapper_name|module_name)\}(_wrapper)?\(\{'

contract('MatlabWrapper._update_wrapper_id',
         params={'collector_function': 'none|tuple[str,%s,str,%s]' % (CLS_OR_FN, MEMBER),
                 'id_diff': 'int', 'function_name': 'none|str'},
         returns='int',
         modifies=['self.wrapper_id', 'dict(self.wrapper_map)'],
         ensures=[
             'self.wrapper_id == old(self.wrapper_id) + 1',
             'result == old(self.wrapper_id)',
             'implies(collector_function is None, dom(self.wrapper_map) == old(dom(self.wrapper_map)))',
             'implies(collector_function is None, vals(self.wrapper_map) == old(vals(self.wrapper_map)))',
             'implies(collector_function is not None, dom(self.wrapper_map) == old(dom(self.wrapper_map)).set(old(self.wrapper_id), True))',
             'implies(collector_function is not None, vals(self.wrapper_map) == old(vals(self.wrapper_map)).set(old(self.wrapper_id), self.wrapper_map[old(self.wrapper_id)]))',
             'implies(collector_function is not None, self.wrapper_map[old(self.wrapper_id)][0] == collector_function[0])',
             'implies(collector_function is not None, same(self.wrapper_map[old(self.wrapper_id)][1], collector_function[1]))',
             'implies(collector_function is not None, self.wrapper_map[old(self.wrapper_id)][2] == collector_function[2])',
             'implies(collector_function is not None, same(self.wrapper_map[old(self.wrapper_id)][4], collector_function[3]))',
             'implies(collector_function is not None and function_name is not None, self.wrapper_map[old(self.wrapper_id)][3] == function_name + "_" + int_str(old(self.wrapper_id) + id_diff))',
             'implies(collector_function is not None and function_name is None and isinstance(collector_function[1], InstantiatedClass), self.wrapper_map[old(self.wrapper_id)][3] == collector_function[0] + collector_function[1].name + "_" + collector_function[2] + "_" + int_str(old(self.wrapper_id) + id_diff))',
             'implies(collector_function is not None and function_name is None and not isinstance(collector_function[1], InstantiatedClass), self.wrapper_map[old(self.wrapper_id)][3] == collector_function[1].name + "_" + int_str(old(self.wrapper_id) + id_diff))',
         ])

contract('MatlabWrapper._wrapper_name', returns='str', result_is='self.module_name + "_wrapper"')

contract('MatlabWrapper.wrap_class_deconstructor',
         params={'namespace_name': 'str', 'inst_class': 'ref:InstantiatedClass'},
         returns='str', ghost=GHOST,
         requires=['c05_inv(self)', 'isinstance(inst_class.parent, Namespace)'],
         modifies=INV_MOD,
         ensures=['c05_inv(self)', 'self.wrapper_id >= old(self.wrapper_id)'],
         holes=[dict(match=r'\{wrapper\}\(\{num\}, obj\.ptr_', key='num', count='siteCount',
                     set={'siteRole': "('deconstructor', inst_class, None, namespace_name + inst_class.name + '_deconstructor', False)"})])

NS_PARENT = 'isinstance(inst_class.parent, Namespace)'
SITE = dict(ghost=GHOST, modifies=INV_MOD)
LOOP = {'inv': ['c05_inv(self)', 'self.wrapper_id >= old(self.wrapper_id)'], 'modifies': LOOP_MOD}


def site(key, params, holes, requires=(), loops=None, returns='str', extra_mod=(), extra_ens=()):
    return contract(key, params=params, returns=returns, ghost=GHOST,
                    requires=['c05_inv(self)'] + list(requires),
                    modifies=INV_MOD + list(extra_mod),
                    ensures=['c05_inv(self)', 'self.wrapper_id >= old(self.wrapper_id)'] + list(extra_ens),
                    holes=holes, loops=loops or {})


site('MatlabWrapper.wrap_global_function',
     params={'function': 'list[ref:GlobalFunction]'},
     requires=['len(function) >= 1'],
     loops={0: LOOP},
     holes=[dict(match=r'\{varargout\}\{module_name\}_wrapper\(\{num\}', key='num', count='siteCount',
                 set={'siteRole': "('global_function', overload, None, overload.name, False)"})])

site('MatlabWrapper.wrap_class_constructors',
     params={'namespace_name': 'str', 'inst_class': 'ref:InstantiatedClass', 'parent_name': 'estr|ref:Typename',
             'ctors': 'list[ref:Constructor]', 'is_virtual': 'str'},
     extra_mod=['heap:backup'],      # _group_methods keeps the unexpanded argument lists in ArgumentList.backup
     loops={0: LOOP},
     holes=[dict(match=r'my_ptr = \{wrapper_name\}\(\{id\}', key='id', count='siteCount',
                 set={'siteRole': "('upcast', inst_class, None, '', True)"}),
            dict(match=r'\{ptr\}\{wrapper_name\}\(\{id\}, my_ptr\)', key='id', count='siteCount',
                 set={'siteRole': "('collectorInsertAndMakeBase', inst_class, None, namespace_name + inst_class.name + '_collectorInsertAndMakeBase', False)"}),
            dict(match=r'\{ptr\}\{wrapper\}\(\{num\}', key='num', count='siteCount',
                 set={'siteRole': "('constructor', inst_class, ctor, namespace_name + inst_class.name + '_constructor', False)"})])

site('MatlabWrapper.wrap_class_properties',
     params={'namespace_name': 'str', 'inst_class': 'ref:InstantiatedClass'}, returns='list[str]',
     loops={0: LOOP},
     holes=[dict(match=r'\{varargout\} = \{wrapper\}\(\{num\}, this\)', key='num', count='siteCount',
                 set={'siteRole': "(propty.name, inst_class, propty, namespace_name + inst_class.name + '_get_' + propty.name, False)"}),
            dict(match=r'\{wrapper\}\(\{num\}, this, value\)', key='num', count='siteCount',
                 set={'siteRole': "(propty.name, inst_class, propty, namespace_name + inst_class.name + '_set_' + propty.name, False)"})])

site('MatlabWrapper.wrap_class_serialize_method',
     params={'namespace_name': 'str', 'inst_class': 'ref:InstantiatedClass'},
     holes=[dict(match=r'\{wrapper\}\(\{wrapper_id\}, this, varargin', key='wrapper_id', count='siteCount',
                 set={'siteRole': "('string_serialize', inst_class, 'serialize', namespace_name + inst_class.name + '_string_serialize', False)"})])

site('MatlabWrapper.wrap_class_methods',
     params={'namespace_name': 'str', 'inst_class': 'ref:InstantiatedClass', 'methods': 'list[ref:InstantiatedMethod]',
             'serialize': 'list[bool]|tuple[bool]'},
     requires=['len(serialize) >= 1'],
     loops={0: dict(LOOP, inv=LOOP['inv'] + ['len(serialize) >= 1', 'len(old(serialize)) == old(len(serialize))'], modifies=LOOP_MOD + ['list(serialize)']),
            1: dict(LOOP, inv=LOOP['inv'] + ['len(serialize) >= 1', 'len(old(serialize)) == old(len(serialize))'], defines={'class_name': 'str'})},
     extra_mod=['list(serialize)', 'heap:backup'], extra_ens=['len(old(serialize)) == old(len(serialize))'],
     holes=[dict(match=r'\{varargout\}\{wrapper\}\(\{num\}, this, varargin', key='num', count='siteCount',
                 set={'siteRole': "(overload.original.name, inst_class, overload, namespace_name + inst_class.name + '_' + overload.original.name, False)"})])

site('MatlabWrapper.wrap_static_methods',
     params={'namespace_name': 'str', 'instantiated_class': 'ref:InstantiatedClass', 'serialize': 'bool'},
     extra_mod=['heap:backup'],
     loops={0: LOOP, 1: dict(LOOP, defines={'static_overload': 'ref:StaticMethod'})},
     holes=[dict(match=r'STRING_DESERIALIZE usage', key='id', count='siteCount',
                 set={'siteRole': "('string_deserialize', instantiated_class, 'deserialize', namespace_name + instantiated_class.name + '_string_deserialize', False)"}),
            dict(match=r'\{varargout\}\{wrapper\}\(\{id\}, varargin', key='id', count='siteCount',
                 set={'siteRole': "(static_overload.name, instantiated_class, static_overload, namespace_name + instantiated_class.name + '_' + static_overload.name, False)"})])

# ------------------------------------------------------------------ the C++ side
CASES = {'caseCount': 'arr[Int,Int]', 'caseTarget': 'arr[Int,Val:str]'}
contract('MatlabWrapper.mex_function', returns='str',
         ghost=dict(GHOST, **CASES),
         requires=['c05_inv(self)', 'forall(lambda k: caseCount[k] == 0)'],
         modifies=['ghost:caseCount', 'ghost:caseTarget:arr[Int,Val:str]'],
         ensures=['forall(0, self.wrapper_id, lambda k: caseCount[k] == 1 and caseTarget[k] == c05_target(self.wrapper_map, k))',
                  'forall(lambda k: implies(k < 0 or k >= self.wrapper_id, caseCount[k] == 0))'],
         loops={0: {'inv': ['forall(0, _i, lambda k: caseCount[k] == 1 and caseTarget[k] == c05_target(self.wrapper_map, k))',
                            'forall(lambda k: implies(k < 0 or k >= _i, caseCount[k] == 0))',
                            '(next_case is None) == (not c05_upcast_at(self.wrapper_map, _i))',
                            "implies(next_case is not None, next_case == self.wrapper_map[_i][1].name + '_upcastFromVoid_' + int_str(_i))"],
                    'modifies': ['ghost:caseCount', 'ghost:caseTarget'],
                    'types': {'next_case': 'none|str'}}},
         holes=[dict(match=r'case \{\}:', key='0', count='caseCount', set={'caseTarget': 'hole:1'})])

DEFS = {'defCount': 'arr[Int,Int]', 'upCount': 'arr[Int,Int]', 'upName': 'arr[Int,Val:str]'}
contract('MatlabWrapper.generate_collector_function', params={'func_id': 'int'}, returns='str',
         ghost=DEFS,
         modifies=['self.global_function_id', 'ghost:defCount'],
         ensures=['defCount == old(defCount).set(func_id, old(defCount)[func_id] + (1 if func_id in self.wrapper_map else 0))',
                  "implies(func_id not in self.wrapper_map, result == '')"],
         assumed=True,
         note='C05 uses: one routine, named wrapper_map[func_id][3], is emitted iff func_id is in the map; '
              'its text is a function of that entry only (structural check c05.struct). Verified clauses: contracts/c06.py')

contract('MatlabWrapper.wrap_collector_function_upcast_from_void',
         params={'class_name': 'str', 'func_id': 'int', 'cpp_name': 'str'}, returns='str', ghost=DEFS,
         modifies=['ghost:upCount', 'ghost:upName:arr[Int,Val:str]'],
         ensures=['upCount == old(upCount).set(func_id, old(upCount)[func_id] + 1)',
                  # the up-cast routine is defined under the name <class_name>_upcastFromVoid_<id>
                  'upName == old(upName).set(func_id, class_name)'],
         holes=[dict(match=r'\{class_name\}_upcastFromVoid_\{id\}\(int nargout', key='id', count='upCount', set={'upName': 'hole:class_name'})])

contract('MatlabWrapper.generate_preamble', returns='tuple[str,str,str,str,str]', assumed=True,
         note='type-only here; its clauses are C10')

contract('MatlabWrapper.generate_wrapper', params={'namespace': 'ref:Namespace'}, returns='none',
         ghost=dict(GHOST, **dict(CASES, **DEFS)),
         requires=['c05_inv(self)', 'forall(lambda k: caseCount[k] == 0 and defCount[k] == 0 and upCount[k] == 0)'],
         modifies=['self.global_function_id', 'list(self.content)', 'ghost:defCount', 'ghost:upCount', 'ghost:upName:arr[Int,Val:str]',
                   'ghost:caseCount', 'ghost:caseTarget:arr[Int,Val:str]'],
         ensures=['forall(0, self.wrapper_id, lambda k: defCount[k] == (1 if k in self.wrapper_map else 0))',
                  'forall(0, self.wrapper_id, lambda k: upCount[k] == (1 if c05_upcast_at(self.wrapper_map, k) else 0))',
                  # the up-cast routine of id k is defined under the name of the class of entry k: the very name that `case k:` calls (c05_target)
                  "forall(0, self.wrapper_id, lambda k: implies(c05_upcast_at(self.wrapper_map, k), upName[k] == self.wrapper_map[k][1].name))",
                  'forall(lambda k: implies(k < 0 or k >= self.wrapper_id, defCount[k] == 0 and upCount[k] == 0))',
                  'forall(0, self.wrapper_id, lambda k: caseCount[k] == 1 and caseTarget[k] == c05_target(self.wrapper_map, k))'],
         loops={0: {'inv': ['forall(0, _i, lambda k: defCount[k] == (1 if k in self.wrapper_map else 0))',
                            'forall(0, _i, lambda k: upCount[k] == (1 if c05_upcast_at(self.wrapper_map, k) else 0))',
                            "forall(0, _i, lambda k: implies(c05_upcast_at(self.wrapper_map, k), upName[k] == self.wrapper_map[k][1].name))",
                            'forall(lambda k: implies(k < 0 or k >= _i, defCount[k] == 0 and upCount[k] == 0))',
                            'set_next_case == (_i >= 1 and (_i - 1) not in self.wrapper_map and _i in self.wrapper_map)',
                            'forall(lambda k: caseCount[k] == 0)'],
                    'modifies': ['self.global_function_id', 'ghost:defCount', 'ghost:upCount', 'ghost:upName']}})

# ------------------------------------------------------------------ callers: the invariant is kept by every
# method that can reach an allocation site
KEEP = dict(ghost=GHOST, requires=['c05_inv(self)'],
            ensures=['c05_inv(self)', 'self.wrapper_id >= old(self.wrapper_id)'])

contract('MatlabWrapper.wrap_methods',
         params={'methods': 'list[ref:Method|ref:GlobalFunction]', 'global_funcs': 'bool', 'global_ns': 'none|ref:Namespace'},
         returns='str', modifies=INV_MOD + ['list(self.content)', 'heap:backup', 'alloc'],
         loops={0: dict(LOOP, modifies=LOOP_MOD + ['list(self.content)'])},
         ghost=GHOST, requires=['c05_inv(self)', 'implies(global_funcs, global_ns is not None)'], ensures=KEEP['ensures'])

contract('MatlabWrapper.wrap_instantiated_class',
         params={'instantiated_class': 'ref:InstantiatedClass', 'namespace_name': 'str'},
         returns='none|tuple[str,str]',
         modifies=INV_MOD + ['list(self.content)', 'heap:backup', 'alloc'],
         loops={0: dict(LOOP, modifies=LOOP_MOD + ['list(self.content)'])}, **KEEP)

contract('MatlabWrapper.wrap_namespace',
         params={'namespace': 'ref:Namespace', 'add_mex_file': 'bool'}, returns='list[any]',
         modifies=INV_MOD + ['list(self.content)', 'list(self.includes)', 'list(self.classes)', 'dict(self.classes_elems)',
                             'heap:backup', 'alloc'],
         loops={0: dict(LOOP, modifies=LOOP_MOD + ['list(self.content)', 'list(self.includes)', 'list(self.classes)',
                                                   'dict(self.classes_elems)', 'heap:backup', 'alloc'])},
         ghost=GHOST, requires=KEEP['requires'] + ['not same(self.wrapper_map, self.classes_elems)'],
         ensures=KEEP['ensures'],
         raises={'TypeError': None})   # wrap_instantiated_class returns None for an ignored global-scope class (C15 finding)

contract('MatlabWrapper.add_class', params={'instantiated_class': 'ref:InstantiatedClass'}, returns='none',
         modifies=['list(self.classes)', 'dict(self.classes_elems)'])

# ------------------------------------------------------------------ lemmas (statements over the contracts above)
LEMMA_FILES = ['spec/c05_lemmas.py']
ALL_GHOST = dict(GHOST, **dict(CASES, **DEFS))

contract('lemma_every_id_served_once', params={'w': 'ref:MatlabWrapper'}, returns='none', ghost=ALL_GHOST, frame=False,
         requires=[
             'c05_inv(w)',
             # postcondition of mex_function
             'forall(0, w.wrapper_id, lambda k: caseCount[k] == 1 and caseTarget[k] == c05_target(w.wrapper_map, k))',
             'forall(lambda k: implies(k < 0 or k >= w.wrapper_id, caseCount[k] == 0))',
             # postcondition of generate_wrapper
             'forall(0, w.wrapper_id, lambda k: defCount[k] == (1 if k in w.wrapper_map else 0))',
             'forall(0, w.wrapper_id, lambda k: upCount[k] == (1 if c05_upcast_at(w.wrapper_map, k) else 0))',
             'forall(lambda k: implies(k < 0 or k >= w.wrapper_id, defCount[k] == 0 and upCount[k] == 0))',
             'forall(0, w.wrapper_id, lambda k: implies(c05_upcast_at(w.wrapper_map, k), upName[k] == w.wrapper_map[k][1].name))'],
         ensures=[
             # ids are exactly 0..n-1, one call site and one case each, none outside
             'forall(lambda v: (siteCount[v] == 1 and caseCount[v] == 1) if 0 <= v and v < w.wrapper_id else (siteCount[v] == 0 and caseCount[v] == 0))',
             # the case of an id runs a routine that is defined exactly once ...
             'forall(0, w.wrapper_id, lambda v: upCount[v] == 1 if c05_upcast_at(w.wrapper_map, v) else (defCount[v] == 1 if v in w.wrapper_map else defCount[v + 1] == 1 and v + 1 < w.wrapper_id))',
             # ... under the very name the case calls (the up-cast routine of id v is <class>_upcastFromVoid_<v>)
             "forall(0, w.wrapper_id, lambda v: implies(c05_upcast_at(w.wrapper_map, v), caseTarget[v] == upName[v] + '_upcastFromVoid_' + int_str(v)))",
             # ... which is the one generated for the role the call site was written for
             'forall(0, w.wrapper_id, lambda v: c05_consistent(w.wrapper_map, v, siteRole[v]))',
             # and every defined routine is the target of exactly one case: an entry k is served by case k (normal),
             # by case k-1 (entry after a reserved id) -- and then case k runs the up-cast routine defined with it
             'forall(0, w.wrapper_id, lambda k: implies(k in w.wrapper_map, (k == 0 or (k - 1) in w.wrapper_map) or (siteCount[k - 1] == 1 and (k - 1) not in w.wrapper_map)))',
         ])

contract('lemma_allocator_is_monotone',
         params={'w': 'ref:MatlabWrapper', 'cf': 'none|tuple[str,%s,str,%s]' % (CLS_OR_FN, MEMBER), 'id_diff': 'int', 'function_name': 'none|str'},
         returns='none', frame=False,
         requires=[], ensures=[])
