"""C02, second view of instantiate_type: what the substitution leaves untouched at the top of a type.

The type-level contract in contracts/names.py (assumed) is what callers use.  This module replaces it, for one proof set of C02
only, by a contract that is *verified*: the result is a new Type object and its qualifiers (const, shared pointer, raw pointer,
reference, basic) are those of the argument, whichever branch instantiates it; plain names are substituted exactly.  The frame is NOT checked here (frame=False: the
attempt to prove it is described in DESIGN 11.5) and the recursive calls are used through this same contract, so the statement is:
qualifiers are preserved provided the nested calls change no object that existed before them.
"""
from pyvc.api import contract
from contracts.names import TYPE_ANY_

QUALS = ('is_const', 'is_shared_ptr', 'is_ptr', 'is_ref', 'is_basic')
contract('instantiate_type',
         params={'ctype': TYPE_ANY_, 'template_typenames': 'list[str]', 'instantiations': 'list[ref:Typename]',
                 'cpp_typename': 'ref:Typename', 'instantiated_class': 'ref:InstantiatedClass|none'},
         returns=TYPE_ANY_, modifies=['alloc'], frame=False,
         # every template parameter has its argument (InstantiatedClass.__init__ asserts it for classes); without it the
         # look-up instantiations[idx] raises IndexError
         under=['len(template_typenames) <= len(instantiations)'],
         # partial correctness w.r.t. IndexError: the store `ctype.typename.instantiations[idx] = ...` is in range because a
         # TemplatedType has as many template_params as its typename has instantiations; carrying that through the first loop
         # needs "a template argument is not the type's own typename" (acyclicity), which the contract language cannot say
         raises={'IndexError': True},
         ensures=['is_fresh(result)'] + ['result.%s == old(ctype.%s)' % (q, q) for q in QUALS] + [
             # the simplest occurrence of a parameter -- a plain, unqualified name -- is replaced by the corresponding argument
             # (the argument of the first parameter of that name), as the very object the caller passed
             'implies(not isinstance(ctype, TemplatedType) and old(len(ctype.typename.instantiations) == 0 '
             'and len(ctype.typename.namespaces) == 0 and "::" not in ctype.typename.name), '
             'forall(0, len(template_typenames), lambda k: implies('
             'template_typenames[k] == old(ctype.typename.name) '
             'and forall(0, k, lambda j: template_typenames[j] != old(ctype.typename.name)), '
             'same(result.typename, instantiations[k]))))',
             # ... and a plain name that is no parameter (and does not mention This) is left as it is
             'implies(not isinstance(ctype, TemplatedType) and old(len(ctype.typename.instantiations) == 0 '
             'and len(ctype.typename.namespaces) == 0 and "::" not in ctype.typename.name and "This" not in ctype.typename.name) '
             'and forall(0, len(template_typenames), lambda k: template_typenames[k] != old(ctype.typename.name)), '
             'result.typename.name == old(ctype.typename.name) and len(result.typename.namespaces) == 0 '
             'and len(result.typename.instantiations) == 0)',
             # ... and a plain `This` (no class object given, no parameter of that name) becomes the class typename passed in
             'implies(not isinstance(ctype, TemplatedType) and old(len(ctype.typename.instantiations) == 0 '
             'and len(ctype.typename.namespaces) == 0 and ctype.typename.name == "This") and instantiated_class is None '
             'and forall(0, len(template_typenames), lambda k: template_typenames[k] != "This"), '
             'same(result.typename, cpp_typename))'],
         loops={0: {'inv': ['is_fresh(ctype.typename.instantiations)'],
                    'modifies': ['new:name', 'new:namespaces', 'new:instantiations', 'new:SEQ']},
                1: {'inv': [], 'modifies': ['new:SEQ']},
                2: {'inv': []}},
         note='qualifiers preserved, result is a new object; frame not checked')
C02_QUAL_KEYS = ['instantiate_type']

# ---- the signature instantiators over that contract: every instantiated argument / return type keeps its qualifiers
LEN_OK = 'len(template_typenames) <= len(instantiations)'


def plain_param(t, r):
    """clause: if the type `t` (pre-state) is a plain name equal to a template parameter, `r` carries the corresponding argument"""
    return ('implies(not isinstance(%(t)s, TemplatedType) and old(len(%(t)s.typename.instantiations) == 0 '
            'and len(%(t)s.typename.namespaces) == 0 and "::" not in %(t)s.typename.name), '
            'forall(0, len(template_typenames), lambda k: implies('
            'template_typenames[k] == old(%(t)s.typename.name) '
            'and forall(0, k, lambda i: template_typenames[i] != old(%(t)s.typename.name)), '
            'same(%(r)s.typename, instantiations[k]))))' % dict(t=t, r=r))
ARG_Q = ' and '.join('result[j].ctype.%s == old(args_list[j].ctype.%s)' % (q, q) for q in QUALS)
ARG_Q_INV = ' and '.join('instantiated_args[j].ctype.%s == old(args_list[j].ctype.%s)' % (q, q) for q in QUALS)
contract('instantiate_args_list',
         params={'args_list': 'list[ref:Argument]', 'template_typenames': 'list[str]', 'instantiations': 'list[ref:Typename]',
                 'cpp_typename': 'ref:Typename'},
         returns='list[ref:Argument]', fresh=True, modifies=['alloc'], under=[LEN_OK], raises={'IndexError': True},
         ensures=['len(result) == len(args_list)',
                  'forall(0, len(args_list), lambda j: is_fresh(result[j]) and result[j].name == args_list[j].name '
                  'and result[j].default == args_list[j].default)',
                  'forall(0, len(args_list), lambda j: is_fresh(result[j].ctype) and %s)' % ARG_Q,
                  'forall(0, len(args_list), lambda j: %s)' % plain_param('args_list[j].ctype', 'result[j].ctype')],
         loops={0: {'inv': ['len(instantiated_args) == _i',
                            'forall(0, _i, lambda j: is_fresh(instantiated_args[j]) and instantiated_args[j].name == args_list[j].name '
                            'and instantiated_args[j].default == args_list[j].default)',
                            'forall(0, _i, lambda j: is_fresh(instantiated_args[j].ctype) and %s)' % ARG_Q_INV,
                            'forall(0, _i, lambda j: %s)' % plain_param('args_list[j].ctype', 'instantiated_args[j].ctype')],
                    'modifies': ['fresh:name', 'fresh:ctype', 'fresh:default', 'fresh:parent'],
                    'types': {'instantiated_args': 'list[ref:Argument]'}}})
RET_Q1 = ' and '.join('result.type1.%s == old(return_type.type1.%s)' % (q, q) for q in QUALS)
RET_Q2 = ' and '.join('result.type2.%s == old(return_type.type2.%s)' % (q, q) for q in QUALS)
contract('instantiate_return_type',
         params={'return_type': 'ref:ReturnType', 'template_typenames': 'list[str]', 'instantiations': 'list[ref:Typename]',
                 'cpp_typename': 'ref:Typename', 'instantiated_class': 'ref:InstantiatedClass|none'},
         returns='ref:ReturnType', modifies=['alloc'], under=[LEN_OK], raises={'IndexError': True},
         ensures=['is_fresh(result)', "isinstance(result.type2, str) == isinstance(return_type.type2, str)",
                  "implies(isinstance(result.type2, str), result.type2 == '')", 'result.parent is None',
                  'same_quals(result.type1, old(return_type.type1))', 'same_quals_or_absent(result.type2, old(return_type.type2))',
                  plain_param('return_type.type1', 'result.type1')])
C02_QUAL_KEYS += ['instantiate_args_list', 'instantiate_return_type']
