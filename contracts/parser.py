"""C01 / C07: the repository-side node constructors (the actions the grammar runs on a match).

Each contract says which fields of the new node hold which of the values the grammar action passes, which
parent links are set, and which inputs are rejected.  pyparsing's ParseResults objects are modelled as lists
(positional use) -- the record use (`t.name`) stays in the class-body lambdas, whose results-name dataflow is
checked structurally by props/grammar.py.
"""
from pyvc.api import contract
from contracts.schema import TYPE_ANY
import spec.names_spec  # noqa: F401
import spec.parser_spec  # noqa: F401

TPL = 'none|estr|ref:Template'
INIT = dict(returns='none')


def fields(*names):
    return ['self.%s' % n for n in names]


contract('Type.__init__', params={'typename': 'ref:Typename', 'is_const': 'str', 'is_shared_ptr': 'str', 'is_ptr': 'str',
                                  'is_ref': 'str', 'is_basic': 'bool'},
         modifies=fields('typename', 'is_const', 'is_shared_ptr', 'is_ptr', 'is_ref', 'is_basic'),
         ensures=['self.typename == typename', 'self.is_const == is_const', 'self.is_shared_ptr == is_shared_ptr',
                  'self.is_ptr == is_ptr', 'self.is_ref == is_ref', 'self.is_basic == is_basic'], **INIT)
contract('TemplatedType.__init__',
         params={'typename': 'ref:Typename', 'template_params': 'list[%s]' % TYPE_ANY, 'is_const': 'str', 'is_shared_ptr': 'str',
                 'is_ptr': 'str', 'is_ref': 'str'},
         requires=['isinstance(typename.name, str)'],
         modifies=fields('typename', 'template_params', 'is_const', 'is_shared_ptr', 'is_ptr', 'is_ref', 'is_basic') + ['alloc'],
         ensures=['self.typename.name == old(typename.name)',
                  "implies(old(len(typename.namespaces) > 0 and typename.namespaces[0] == ''), self.typename.namespaces == old(typename.namespaces[1:]))",
                  "implies(not old(len(typename.namespaces) > 0 and typename.namespaces[0] == ''), self.typename.namespaces == old(typename.namespaces))",
                  'len(self.typename.instantiations) == len(template_params)',
                  'forall(0, len(template_params), lambda j: self.typename.instantiations[j] == old(template_params[j].typename))',
                  'self.is_const == is_const', 'self.is_shared_ptr == is_shared_ptr',
                  'self.is_ptr == is_ptr', 'self.is_ref == is_ref', 'self.is_basic == False',
                  'len(self.template_params) == len(template_params)',
                  'forall(0, len(template_params), lambda j: self.template_params[j] == template_params[j])'], **INIT)
contract('Argument.__init__', params={'ctype': TYPE_ANY + '|list[%s]' % TYPE_ANY, 'name': 'nestr', 'default': 'none|str'},
         requires=['(len(ctype) >= 1) if isinstance(ctype, list) else True'],
         modifies=fields('ctype', 'name', 'default', 'parent'),
         ensures=['self.ctype == (ctype[0] if isinstance(ctype, list) else ctype)', 'self.name == name', 'self.default == default',
                  'self.parent is None'], **INIT)
contract('ArgumentList.__init__', params={'args_list': 'list[ref:Argument]'},
         modifies=fields('args_list', 'parent') + ['heap:parent@Argument'],
         ensures=['self.args_list == args_list', 'self.parent is None',
                  'forall(0, len(args_list), lambda j: args_list[j].parent == self)'],
         loops={0: {'inv': ['forall(0, _i, lambda j: args_list[j].parent == self)', 'self.args_list == args_list'],
                    'modifies': ['heap:parent@Argument']}}, **INIT)
contract('ReturnType.__init__', params={'type1': TYPE_ANY, 'type2': 'estr|ref:Type'},
         modifies=fields('type1', 'type2', 'parent'),
         ensures=['self.type1 == type1', 'self.type2 == type2', 'self.parent is None'], **INIT)
contract('Method.__init__', params={'template': TPL, 'name': 'nestr', 'return_type': 'ref:ReturnType', 'args': 'ref:ArgumentList',
                                    'is_const': 'str', 'parent': 'estr|ref:Class'},
         modifies=fields('template', 'name', 'return_type', 'args', 'is_const', 'parent'),
         ensures=['self.template == template', 'self.name == name', 'self.return_type == return_type', 'self.args == args',
                  'self.is_const == is_const', 'self.parent == parent'], **INIT)
contract('StaticMethod.__init__', params={'name': 'nestr', 'return_type': 'ref:ReturnType', 'args': 'ref:ArgumentList',
                                          'template': TPL, 'parent': 'estr|ref:Class'},
         modifies=fields('template', 'name', 'return_type', 'args', 'parent'),
         ensures=['self.template == template', 'self.name == name', 'self.return_type == return_type', 'self.args == args',
                  'self.parent == parent'], **INIT)
contract('Constructor.__init__', params={'name': 'nestr', 'args': 'ref:ArgumentList', 'template': TPL, 'parent': 'estr|ref:Class'},
         modifies=fields('template', 'name', 'args', 'parent'),
         ensures=['self.template == template', 'self.name == name', 'self.args == args', 'self.parent == parent'], **INIT)
contract('DunderMethod.__init__', params={'name': 'nestr', 'args': 'ref:ArgumentList'},
         modifies=fields('name', 'args'), ensures=['self.name == name', 'self.args == args'], **INIT)
contract('GlobalFunction.__init__', params={'name': 'nestr', 'return_type': 'ref:ReturnType', 'args_list': 'ref:ArgumentList',
                                            'template': TPL, 'parent': 'estr|ref:Namespace'},
         modifies=fields('template', 'name', 'return_type', 'args', 'parent') + ['return_type.parent', 'args_list.parent'],
         ensures=['self.template == template', 'self.name == name', 'self.return_type == return_type', 'self.args == args_list',
                  'self.parent == parent', 'return_type.parent == self', 'args_list.parent == self'], **INIT)

C01_KEYS = ['Typename.__init__', 'Type.__init__', 'TemplatedType.__init__', 'Argument.__init__', 'ArgumentList.__init__',
            'ReturnType.__init__', 'Method.__init__', 'StaticMethod.__init__', 'Constructor.__init__', 'DunderMethod.__init__',
            'GlobalFunction.__init__']

UNARY_OK = "(operator == '+' or operator == '-')"
contract('Operator.__init__', params={'name': 'nestr', 'operator': 'str', 'return_type': 'ref:ReturnType', 'args': 'ref:ArgumentList',
                                      'is_const': 'str', 'parent': 'estr|ref:Class'},
         requires=['isinstance(return_type.type1.typename.name, str)',
                   'forall(0, len(args.args_list), lambda j: isinstance(args.args_list[j].ctype.typename.name, str))'],
         modifies=fields('name', 'operator', 'return_type', 'args', 'is_const', 'is_unary', 'parent'),
         raises={'ValueError': 'len(args.args_list) == 0 and not ' + UNARY_OK,
                 'AssertionError': "len(args.args_list) >= 2 or (len(args.args_list) == 1 and operator != '()' and operator != '[]' and "
                                   "args.args_list[0].ctype.typename.name != return_type.type1.typename.name)"},
         ensures=['self.name == name', 'self.operator == operator', 'self.return_type == return_type', 'self.args == args',
                  'self.is_const == is_const', 'self.parent == parent', 'self.is_unary == (len(args.args_list) == 0)',
                  # accepted operators: unary +/-, or binary with one argument (same type as the result unless () / [])
                  'len(args.args_list) <= 1', 'implies(len(args.args_list) == 0, ' + UNARY_OK + ')',
                  "implies(len(args.args_list) == 1 and operator != '()' and operator != '[]', "
                  "args.args_list[0].ctype.typename.name == return_type.type1.typename.name)"], **INIT)
contract('Enumerator.__init__', params={'name': 'nestr'}, modifies=fields('name'), ensures=['self.name == name'], **INIT)
contract('Enum.__init__', params={'name': 'nestr', 'enumerators': 'list[ref:Enumerator]', 'parent': 'estr|ref:Class|ref:Namespace'},
         modifies=fields('name', 'enumerators', 'parent'),
         ensures=['self.name == name', 'self.enumerators == enumerators', 'self.parent == parent'], **INIT)
contract('Variable.__init__', params={'ctype': 'list[%s]' % TYPE_ANY, 'name': 'nestr', 'default': 'none|str',
                                      'parent': 'estr|ref:Class|ref:Namespace'},
         requires=['len(ctype) >= 1'], modifies=fields('ctype', 'name', 'default', 'parent'),
         ensures=['self.ctype == ctype[0]', 'self.name == name', 'self.default == default', 'self.parent == parent'], **INIT)
contract('Include.__init__', params={'header': 'str', 'parent': 'estr|ref:Namespace'}, modifies=fields('header', 'parent'),
         ensures=['self.header == header', 'self.parent == parent'], **INIT)
contract('ForwardDeclaration.__init__', params={'typename': 'ref:Typename', 'parent_type': 'estr|ref:Typename', 'is_virtual': 'str',
                                                'parent': 'estr|ref:Namespace'},
         requires=['isinstance(typename.name, str)'],
         modifies=fields('name', 'typename', 'parent_type', 'is_virtual', 'parent'),
         ensures=['self.name == typename.name', 'self.typename == typename', 'self.parent_type == parent_type',
                  'self.is_virtual == is_virtual', 'self.parent == parent'], **INIT)
contract('TypedefTemplateInstantiation.__init__', params={'templated_type': 'ref:TemplatedType', 'new_name': 'str',
                                                          'parent': 'estr|ref:Namespace'},
         modifies=fields('typename', 'new_name', 'parent'),
         ensures=['self.typename == old(templated_type.typename)', 'self.new_name == new_name', 'self.parent == parent'], **INIT)

C01_KEYS += ['Operator.__init__', 'Enumerator.__init__', 'Enum.__init__', 'Variable.__init__', 'Include.__init__',
             'ForwardDeclaration.__init__', 'TypedefTemplateInstantiation.__init__']

MEMBER_ANY = 'ref:Constructor|ref:Method|ref:StaticMethod|ref:DunderMethod|ref:Variable|ref:Operator|ref:Enum'
LISTS = [('ctors', 'only_ctors'), ('methods', 'only_methods'), ('static_methods', 'only_statics'), ('dunder_methods', 'only_dunders'),
         ('properties', 'only_properties'), ('operators', 'only_operators'), ('enums', 'only_enums')]
contract('Class.Members.__init__', params={'members': 'list[%s]' % MEMBER_ANY},
         modifies=fields(*[a for a, _ in LISTS]) + ['alloc'],
         ensures=['self.%s == %s(old(seq(members)), len(members))' % (a, f) for a, f in LISTS],
         loops={0: {'inv': ['self.%s == %s(old(seq(members)), _i)' % (a, f) for a, f in LISTS],
                    'modifies': ['list(self.%s)' % a for a, _ in LISTS]}}, **INIT)
C01_KEYS += ['Class.Members.__init__']

PARENTED = ['ctors', 'methods', 'static_methods', 'dunder_methods', 'properties']
PARENT_FAM = ['Constructor', 'Method', 'StaticMethod', 'DunderMethod', 'Variable']
CLS_PARAMS = {'template': TPL, 'is_virtual': 'str', 'name': 'nestr',
              'parent_class': 'estr|list[ref:Typename|ref:TemplatedType]|ref:Typename|ref:TemplatedType',
              'ctors': 'list[ref:Constructor]', 'methods': 'list[ref:Method]', 'static_methods': 'list[ref:StaticMethod]',
              'dunder_methods': 'list[ref:DunderMethod]', 'properties': 'list[ref:Variable]', 'operators': 'list[ref:Operator]',
              'enums': 'list[ref:Enum]', 'parent': 'estr|ref:Namespace'}
contract('Class.__init__', params=CLS_PARAMS,
         requires=['(len(parent_class) >= 1) if isinstance(parent_class, list) else True'],
         modifies=fields('template', 'is_virtual', 'name', 'parent_class', 'ctors', 'methods', 'static_methods', 'dunder_methods',
                         'properties', 'operators', 'enums', 'parent')
         + ['heap:parent@Constructor', 'heap:parent@Method', 'heap:parent@StaticMethod', 'heap:parent@DunderMethod', 'heap:parent@Variable'],
         raises={'ValueError': 'exists(0, len(ctors), lambda j: ctors[j].name != name)'},
         ensures=['self.template == template', 'self.is_virtual == is_virtual', 'self.name == name',
                  "implies(isinstance(parent_class, str), self.parent_class == '')",
                  '(self.parent_class == parent_class[0]) if isinstance(parent_class, list) else True',
                  '(self.parent_class == parent_class) if isinstance(parent_class, (Typename, TemplatedType)) else True',
                  'self.ctors == ctors', 'self.methods == methods', 'self.static_methods == static_methods',
                  'self.dunder_methods == dunder_methods', 'self.properties == properties', 'self.operators == operators',
                  'self.enums == enums', 'self.parent == parent',
                  # an accepted class: every constructor carries the class name
                  'forall(0, len(ctors), lambda j: ctors[j].name == name)']
                 + ['forall(0, len(%s), lambda j: %s[j].parent == self)' % (a, a) for a in PARENTED],
         loops=dict([(0, {'inv': ['forall(0, _i, lambda j: ctors[j].name == name)']})] + [
             (k + 1, {'inv': ['self.parent == parent', 'forall(0, _i, lambda j: self.%s[j].parent == self)' % a]
                             + ['forall(0, len(self.%s), lambda j: self.%s[j].parent == self)' % (b, b) for b in PARENTED[:k]],
                      'modifies': ['heap:parent@' + PARENT_FAM[k]]}) for k, a in enumerate(PARENTED)]), **INIT)
C01_KEYS += ['Class.__init__']

NODE = 'ref:Class|ref:GlobalFunction|ref:Enum|ref:Include|ref:ForwardDeclaration|ref:TypedefTemplateInstantiation|ref:Variable|ref:Namespace'
contract('Namespace.__init__', params={'name': 'str', 'content': 'list[%s]' % NODE, 'parent': 'estr|ref:Namespace'},
         requires=['forall(0, len(content), lambda j: content[j] != self)'],
         modifies=fields('name', 'content', 'parent') + ['heap:parent'],
         ensures=['self.name == name', 'self.content == content', 'self.parent == parent',
                  # every declaration is attributed to this scope
                  'forall(0, len(content), lambda j: content[j].parent == self)'],
         loops={0: {'inv': ['self.name == name', 'self.content == content', 'self.parent == parent',
                            'forall(0, _i, lambda j: content[j].parent == self)'],
                    'modifies': ['heap:parent']}}, **INIT)
contract('Template.TypenameAndInstantiations.__init__',
         params={'typename': 'str', 'instantiations': 'estr|list[ref:Typename|ref:TemplatedType]'},
         modifies=fields('typename', 'instantiations') + ['alloc'],
         ensures=['self.typename == typename',
                  "len(self.instantiations) == (len(instantiations) if isinstance(instantiations, list) else 0)",
                  '(forall(0, len(instantiations), lambda j: self.instantiations[j] == old(inst_typename(instantiations[j])))) '
                  'if isinstance(instantiations, list) else True'],
         loops={0: {'inv': ['len(self.instantiations) == _i',
                            'forall(0, _i, lambda j: self.instantiations[j] == old(inst_typename(instantiations[j])))'],
                    'modifies': ['list(self.instantiations)']}}, **INIT)
contract('Template.__init__', params={'typename_and_instantiations_list': 'list[ref:Template.TypenameAndInstantiations]'},
         modifies=fields('typenames', 'instantiations') + ['alloc'],
         ensures=['len(self.typenames) == len(typename_and_instantiations_list)',
                  'len(self.instantiations) == len(typename_and_instantiations_list)',
                  'forall(0, len(typename_and_instantiations_list), lambda j: self.typenames[j] == typename_and_instantiations_list[j].typename '
                  'and same(self.instantiations[j], typename_and_instantiations_list[j].instantiations))'], **INIT)
C01_KEYS += ['Namespace.__init__', 'Template.TypenameAndInstantiations.__init__', 'Template.__init__']
