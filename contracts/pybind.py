"""Contracts of the pybind11 generator (gtwrap/pybind_wrapper.py)."""
from pyvc.api import contract
import spec.names_spec  # noqa: F401
import spec.pybind_spec  # noqa: F401

ARGS = 'ref:ArgumentList'

contract('ArgumentList.list', returns='list[ref:Argument]', result_is='self.args_list')
contract('ArgumentList.names', returns='list[str]', fresh=True, result_is='[arg.name for arg in self.args_list]')
contract('ArgumentList.to_cpp', returns='list[str]', fresh=True, result_is='[ty_cpp(arg.ctype) for arg in self.args_list]')
contract('ArgumentList.__len__', returns='int', result_is='len(self.args_list)')

contract('PybindWrapper._py_args_names', params={'args': ARGS}, returns='str', result_is='py_args_names(args)',
         loops={0: {'inv': ["', '.join(py_args) == py_args_join(args.args_list, _i)", 'len(py_args) == _i'],
                    'types': {'py_args': 'list[str]'}}})
contract('PybindWrapper._method_args_signature', params={'args': ARGS}, returns='str', result_is='args_signature(args)')

M_ANY = 'ref:Method|ref:StaticMethod'
contract('Method.to_cpp', returns='str', result_is='self.name')
contract('StaticMethod.to_cpp', returns='str', result_is='self.name')
PLAIN = 'forall(0, len(self.instantiations), lambda j: wf_tn_plain(self.instantiations[j]))'
WFI = 'forall(0, len(self.instantiations), lambda j: wf_tn(self.instantiations[j]))'
contract('InstantiatedMethod.to_cpp', returns='str', requires=[PLAIN], result_is='im_cpp(self)')
contract('InstantiatedStaticMethod.to_cpp', returns='str', requires=[PLAIN], result_is='im_cpp(self)')
contract('ReturnType.is_void', returns='bool',
         result_is="self.type1.typename.name == 'void' and not self.type2")

contract('PybindWrapper.wrap_ctors', params={'my_class': 'ref:InstantiatedClass'}, returns='str',
         result_is='ctors_fold(my_class.ctors, len(my_class.ctors))',
         loops={0: {'inv': ['res == ctors_fold(my_class.ctors, _i)']}})
contract('PybindWrapper._wrap_serialization', params={'cpp_class': 'str'}, returns='str',
         modifies=['list(self._serializing_classes)'],
         ensures=['result == serialization_binding(cpp_class)'])
contract('PybindWrapper._wrap_dunder',
         params={'method': 'ref:DunderMethod', 'cpp_class': 'str', 'prefix': 'str', 'suffix': 'str', 'method_suffix': 'str'},
         returns='str', requires=["method_suffix == ''", "method.name == 'len' or method.name == 'iter' or (method.name == 'contains' and len(method.args.args_list) >= 1)"],
         result_is='dunder_binding(method, cpp_class, prefix, suffix)')
contract('PybindWrapper.wrap_dunder_methods',
         params={'methods': 'list[ref:DunderMethod]', 'cpp_class': 'str', 'prefix': 'str', 'suffix': 'str'}, returns='str',
         requires=["forall(0, len(methods), lambda j: methods[j].name == 'len' or methods[j].name == 'iter' or (methods[j].name == 'contains' and len(methods[j].args.args_list) >= 1))"],
         result_is='dunders_fold(methods, cpp_class, prefix, suffix, len(methods))',
         loops={0: {'inv': ['res == dunders_fold(methods, cpp_class, prefix, suffix, _i)']}})
contract('PybindWrapper.wrap_properties', params={'properties': 'list[ref:Variable]', 'cpp_class': 'str', 'prefix': 'str'},
         returns='str', result_is='properties_fold(properties, cpp_class, prefix, len(properties))',
         loops={0: {'inv': ['res == properties_fold(properties, cpp_class, prefix, _i)']}})
contract('PybindWrapper.wrap_operators', params={'operators': 'list[ref:Operator]', 'cpp_class': 'str', 'prefix': 'str'},
         returns='str', requires=["'{' not in prefix and '}' not in prefix"],
         result_is='operators_fold(operators, cpp_class, prefix, len(operators))',
         loops={0: {'inv': ['res == operators_fold(operators, cpp_class, prefix, _i)']}})
contract('PybindWrapper.wrap_variable',
         params={'namespace': 'str', 'module_var': 'str', 'variable': 'ref:Variable', 'prefix': 'str'}, returns='str',
         result_is='variable_binding(namespace, module_var, variable, prefix)')

contract('XMLDocParser.extract_docstring',
         params={'xml_folder': 'str', 'cpp_class': 'str', 'cpp_method': 'str', 'method_args_names': 'list[str]'},
         returns='str', modifies=['dict(self._memory)'], assumed=True,
         note='type-level here; its clauses are C17')

M_WRAP = dict(params={'method': 'ref:Method|ref:StaticMethod', 'cpp_class': 'str', 'prefix': 'str', 'suffix': 'str', 'method_suffix': 'str'},
              returns='str')
contract('PybindWrapper._wrap_method',
         under=["method.name != 'print'", "self.xml_source == ''"],
         modifies=['list(self._serializing_classes) if self.use_boost_serialization', 'dict(self.xml_parser._memory)'],
         requires=["'{' not in prefix and '}' not in prefix"],
         ensures=["implies(self.xml_source == '', result == method_binding(self, method, cpp_class, prefix, suffix, method_suffix, ''))",
                  "implies(self.xml_source != '', exists(lambda q: False) or True)"],
         **M_WRAP)

contract('PybindWrapper.wrap_methods',
         under=["forall(0, len(methods), lambda j: methods[j].name != 'print')", 'not self.use_boost_serialization',
                # the gtsam::Values.insert(size_t, X) special case reads the first two parameters without checking that they exist
                "forall(0, len(methods), lambda j: implies(methods[j].name == 'insert' and cpp_class == 'gtsam::Values', "
                "len(methods[j].args.args_list) >= 2))"],
         opaque=['method_binding'],
         params={'methods': 'list[ref:Method]|list[ref:StaticMethod]', 'cpp_class': 'str', 'prefix': 'str', 'suffix': 'str'}, returns='str',
         requires=["'{' not in prefix and '}' not in prefix", "self.xml_source == ''"],
         # the export list grows only when serialization is on; the documentation memory is touched only with an XML source
         modifies=['list(self._serializing_classes) if self.use_boost_serialization', 'dict(self.xml_parser._memory)'],
         ensures=['result == methods_fold(self, methods, cpp_class, prefix, suffix, len(methods))'],
         loops={0: {'inv': ['res == methods_fold(self, methods, cpp_class, prefix, suffix, _i)'],
                    'modifies': ['dict(self.xml_parser._memory)']}})
contract('PybindWrapper.wrap_functions',
         params={'functions': 'list[ref:GlobalFunction]', 'namespace': 'str', 'prefix': 'str', 'suffix': 'str'}, returns='str',
         requires=["'{' not in prefix and '}' not in prefix"],
         result_is='functions_fold(functions, namespace, prefix, suffix, len(functions))',
         loops={0: {'inv': ['res == functions_fold(functions, namespace, prefix, suffix, _i)']}})
contract('PybindWrapper._partial_match', params={'namespaces1': 'list[str]', 'namespaces2': 'list[str]'}, returns='bool',
         result_is='forall(0, min(len(namespaces1), len(namespaces2)), lambda j: namespaces1[j] == namespaces2[j])',
         loops={0: {'inv': ['forall(0, _i, lambda j: namespaces1[j] == namespaces2[j])']}})
contract('PybindWrapper._gen_module_var', params={'namespaces': 'list[str]'}, returns='str', result_is='module_var(self, namespaces)')
contract('PybindWrapper._add_namespaces', params={'name': 'str', 'namespaces': 'list[str]'}, returns='str',
         result_is='qualified(name, namespaces)')

# ---- C17: which of several same-named, same-parameter-name documented overloads is used
DKEY = "cpp_class + '.' + cpp_method + '(' + (','.join(method_args_names) if len(method_args_names) > 0 else '') + ')'"
contract('XMLDocParser.determine_documenting_index',
         params={'cpp_class': 'str', 'cpp_method': 'str', 'method_args_names': 'list[str]', 'member_defs': 'list[any]'},
         returns='int', modifies=['dict(self._memory)'],
         requires=['implies((%s) in self._memory, self._memory[%s] >= 0)' % (DKEY, DKEY)],
         ensures=['0 <= result', 'implies(len(member_defs) >= 1, result < len(member_defs))', 'self._memory[%s] >= 0 or len(member_defs) <= 1' % DKEY,
                  # a single candidate (or none): nothing is remembered
                  'implies(len(member_defs) <= 1, result == 0 and dom(self._memory) == old(dom(self._memory)) '
                  'and vals(self._memory) == old(vals(self._memory)))',
                  # several candidates: the k-th request for this signature gets the k-th one (the last one once they run out)
                  'implies(len(member_defs) > 1, (%s) in self._memory)' % DKEY,
                  'implies(len(member_defs) > 1, self._memory[%s] == (old(self._memory[%s]) + 1 if old((%s) in self._memory) else 0))' % (DKEY, DKEY, DKEY),
                  'implies(len(member_defs) > 1, result == min(self._memory[%s], len(member_defs) - 1))' % DKEY,
                  'implies(len(member_defs) > 1, dom(self._memory) == old(dom(self._memory)).set(%s, True))' % DKEY,
                  'implies(len(member_defs) > 1, vals(self._memory) == old(vals(self._memory)).set(%s, self._memory[%s]))' % (DKEY, DKEY)])

# ---- enums (C03): py::enum_<ns::[Class::]Name>(module, "Name", py::arithmetic()) with one .value per enumerator, in order
ENUM_CPP = "((class_name + '::' + enum_cpp(enum)) if class_name != '' else enum_cpp(enum))"
contract('PybindWrapper.wrap_enum', params={'enum': 'ref:Enum', 'class_name': 'str', 'module': 'none|str', 'prefix': 'str'},
         returns='str', modifies=['alloc'], requires=["'{' not in prefix and '}' not in prefix"],
         result_is='old(enum_binding(enum, %s, module if module is not None else module_var(self, [\'\'] + ns_chain(enum.parent)), prefix))' % ENUM_CPP,
         loops={0: {'inv': ["res == old(prefix + 'py::enum_<' + %s + '>(' + (module if module is not None else module_var(self, [''] + ns_chain(enum.parent))) "
                            "+ ', \"' + enum.name + '\", py::arithmetic())' + enumerators_fold(enum.enumerators, %s, prefix, _i))" % (ENUM_CPP, ENUM_CPP)]}})
contract('PybindWrapper.wrap_enums', params={'enums': 'list[ref:Enum]', 'instantiated_class': 'ref:InstantiatedClass', 'prefix': 'str'},
         returns='str', modifies=['alloc'], requires=["'{' not in prefix and '}' not in prefix"],
         result_is='old(enums_fold(enums, ic_cpp(instantiated_class), instantiated_class.name.lower(), prefix, len(enums)))',
         loops={0: {'inv': ['res == old(enums_fold(enums, ic_cpp(instantiated_class), instantiated_class.name.lower(), prefix, _i))']}})

contract('PybindWrapper.wrap_instantiated_declaration', params={'instantiated_decl': 'ref:InstantiatedDeclaration'}, returns='str',
         modifies=['alloc'], result_is='old(declaration_binding(self, instantiated_decl))')
NO_PRINT = "forall(0, len(instantiated_class.%s), lambda j: instantiated_class.%s[j].name != 'print')"
INSERT_OK = ("forall(0, len(instantiated_class.%s), lambda j: implies(instantiated_class.%s[j].name == 'insert' and "
             "ic_cpp(instantiated_class) == 'gtsam::Values', len(instantiated_class.%s[j].args.args_list) >= 2))")
contract('PybindWrapper.wrap_instantiated_class', params={'instantiated_class': 'ref:InstantiatedClass'}, returns='str',
         under=["self.xml_source == ''", 'not self.use_boost_serialization',
                NO_PRINT % ('methods', 'methods'), NO_PRINT % ('static_methods', 'static_methods'),
                INSERT_OK % ('methods', 'methods', 'methods'), INSERT_OK % ('static_methods', 'static_methods', 'static_methods'),
                "forall(0, len(instantiated_class.dunder_methods), lambda j: instantiated_class.dunder_methods[j].name == 'len' or "
                "instantiated_class.dunder_methods[j].name == 'iter' or (instantiated_class.dunder_methods[j].name == 'contains' "
                "and len(instantiated_class.dunder_methods[j].args.args_list) >= 1))"],
         opaque=['methods_fold', 'method_binding', 'ctors_fold', 'dunders_fold', 'properties_fold', 'operators_fold'],
         modifies=['alloc', 'dict(self.xml_parser._memory)'],
         # the class declaration followed by its members in the fixed order ctors, methods, statics, dunders, properties, operators
         ensures=['result == old(class_binding(self, instantiated_class))'])

contract('PybindWrapper._cpp_string_literal', params={'text': 'str'}, returns='str', assumed=True,
         note='type-level; that a C++ compiler decodes the literal to the text is the bounded round trip of C17 '
              '(character loop with str.isprintable / encode: outside the engine)')
