"""C10: the base named by a classdef.  Kept out of contracts/matlab_text.py on purpose: with this contract visible, the C05 proof of
MatlabWrapper.wrap_instantiated_class would have to follow str() of a TemplatedType base (str() of a list inside
TemplatedType.__repr__: out of the engine's reach); C05 only needs the call to be effect-free, which holds for an uncontracted pure helper."""
from pyvc.api import contract

BASE = 'estr|ref:Typename|ref:Type|ref:TemplatedType'
# a classdef names its declared base, or `handle` when the class declares none (parent_class is '' then)
contract('MatlabWrapper._qualified_name', params={'names': BASE}, returns='str|ref:Typename|ref:Type|ref:TemplatedType',
         ensures=["implies(isinstance(names, str), result == 'handle')", 'implies(not isinstance(names, str), same(result, names))'])
C10_BASE_KEYS = ['MatlabWrapper._qualified_name']
