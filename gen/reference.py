"""Reference semantics of the dialect on the abstract trees of gen/iface.py (written from DOCS.md and the
property statements, not from the code): capture-free template substitution, instantiation lists and names,
C++ spellings, and the list of Python bindings a module declares."""
import itertools
import keyword

from .iface import T, BASIC

IPYTHON = ("svg", "png", "jpeg", "html", "javascript", "markdown", "latex")


# ---------------------------------------------------------------- spellings
def cpp_name(t):
    """ns::Name<args> of a type without its qualifiers"""
    _, _c, ns, name, targs, _m = t
    s = '::'.join(list(ns) + [name])
    if targs:
        s += '<' + ', '.join(cpp_type(a) for a in targs) + '>'
    return s


def cpp_type(t):
    _, const, ns, name, targs, mark = t
    x = cpp_name(t)
    if mark == '*':
        x = 'std::shared_ptr<%s>' % x
    elif mark == '@':
        x = x + '*'
    elif mark == '&':
        x = x + '&'
    return ('const ' if const else '') + x


def iname(t):
    """identifier-safe instantiated name: Name followed by the instantiated names of the arguments"""
    return t[3] + ''.join(iname(a) for a in t[4])


def cap(s):
    return s[0].upper() + s[1:] if s else s


# ---------------------------------------------------------------- substitution
def subst(t, env, this, depth=0):
    """replace template parameters (by exact component match), scoped uses P::X, and `This`"""
    _, const, ns, name, targs, mark = t
    targs2 = tuple(subst(a, env, this, depth + 1) for a in targs)
    if not ns and name in env and not targs:
        r = env[name]
        return ('T', const, r[2], r[3], r[4], mark)
    if ns and ns[0] in env:
        p = env[ns[0]]
        head = tuple(p[2]) + (p[3] + (('<' + ', '.join(cpp_type(a) for a in p[4]) + '>') if p[4] else ''),)
        return ('T', const, head + tuple(ns[1:]), name, targs2, mark)
    if not ns and name == 'This' and this is not None:
        return ('T', const, this[2], this[3], this[4], mark)
    if 'This' in ns and this is not None:
        i = ns.index('This')
        comp = this[3] + (('<' + ', '.join(cpp_type(a) for a in this[4]) + '>') if this[4] else '')
        # DOCS.md: the user writes the namespace in front (`gtsam::This::Enum`): at the top level `This` stands for the
        # class name only; inside template arguments the class is spelled with its namespaces (both are the same C++ type
        # when the user follows the documented convention)
        full = tuple(this[2]) if depth >= 1 else ()
        return ('T', const, tuple(ns[:i]) + full + (comp,) + tuple(ns[i + 1:]), name, targs2, mark)
    return ('T', const, ns, name, targs2, mark)


def subst_ret(r, env, this):
    if r[0] == 'P':
        return ('P', subst(r[1], env, this), subst(r[2], env, this))
    return subst(r, env, this)


def subst_args(args, env, this):
    return tuple(('A', subst(a[1], env, this), a[2], a[3]) for a in args)


def envs_of(tpl):
    """[(instantiation tuple, env)] for a template with enumerated lists; [] if some parameter has none"""
    if tpl is None:
        return [((), {})]
    lists = [insts for _, insts in tpl[1]]
    if any(l is None for l in lists):
        return []
    out = []
    for combo in itertools.product(*lists):
        out.append((combo, {p: c for (p, _), c in zip(tpl[1], combo)}))
    return out


def inst_suffix(combo):
    return ''.join(cap(iname(c)) for c in combo)


# ---------------------------------------------------------------- python bindings
def py_name(cpp_method, base):
    n = ('_repr_%s_' % cpp_method) if cpp_method in IPYTHON else base
    return n + '_' if keyword.iskeyword(n) else n


def is_void(r):
    return r[0] == 'T' and r[3] == 'void' and not r[2]


def callee(name, combo):
    return name + ('<' + ','.join(cpp_name(c) for c in combo) + '>' if combo else '')


def find_template(module, ns, name):
    """the class / function / forward declaration a typedef refers to: looked up from the module root"""
    cur = module
    for comp in ns:
        nxt = [d for d in cur if d[0] == 'ns' and d[1] == comp]
        if not nxt:
            return None, None
        cur = sum((list(d[2]) for d in nxt), [])
    for d in cur:
        if d[0] == 'class' and d[3] == name:
            return d, tuple(ns)
        if d[0] == 'func' and d[3] == name:
            return d, tuple(ns)
        if d[0] == 'fwd' and d[2][3] == name and not d[2][2]:
            return d, tuple(ns)
    return None, None


def class_bindings(c, path, combo, env, pyname, top, out, use_boost=False):
    _, tpl, virt, name, base, members = c
    targs = tuple(combo)
    this = T(name, path, targs)
    cpp = cpp_name(this)
    mod = tuple(path[len(top):])
    b = None
    if base is not None:
        b = cpp_name(subst(base, env, this)) if base[4] else cpp_name(base)
    out.append(('class', mod, pyname, cpp, b))
    for m in members:
        k = m[0]
        if k == 'ctor':
            for mc, menv in envs_of(m[1]):
                e2 = dict(env, **menv)
                a = subst_args(m[3], e2, this)
                out.append(('ctor', cpp, tuple(cpp_type(x[1]) for x in a), tuple((x[2], x[3]) for x in a)))
        elif k in ('method', 'static'):
            for mc, menv in envs_of(m[1]):
                e2 = dict(env, **menv)
                a = subst_args(m[4], e2, this)
                r = subst_ret(m[2], e2, this)
                cal = callee(m[3], mc)
                if cal in ('serialize', 'serializable'):
                    if use_boost:
                        out.append(('serialization', cpp))
                    continue
                pn = py_name(cal, m[3] + inst_suffix(mc))
                out.append((k, cpp, pn, cal, tuple(cpp_type(x[1]) for x in a), tuple((x[2], x[3]) for x in a), is_void(r)))
                if m[3] + inst_suffix(mc) == 'print':
                    out.append(('repr', cpp, tuple((x[2]) for x in a)))
        elif k == 'prop':
            t = subst(m[1], env, this)
            out.append(('prop', cpp, m[2], bool(t[1])))
        elif k == 'op':
            out.append(('op', cpp, m[2], len(m[3]) == 0))
        elif k == 'dunder':
            out.append(('dunder', cpp, m[1]))
    for m in members:
        if m[0] == 'enum':
            out.append(('enum', ('class', pyname), m[1], cpp + '::' + m[1], tuple(m[3])))


def bindings(module, top=('',), ignore=(), use_boost=False):
    """the in-order list of bindings the generated Python module must register"""
    out = []
    top = tuple(top)

    def in_scope(path):
        full = ('',) + tuple(path)
        return all(a == b for a, b in zip(full, top))

    declared = set()

    def walk(decls, path):
        full = ('',) + tuple(path)
        active = in_scope(path) and len(full) >= len(top)
        if active and len(full) > len(top) and tuple(path) not in declared:
            declared.add(tuple(path))       # a namespace may be opened several times: one submodule
            out.append(('submodule', tuple(path[len(top) - 1:-1]), path[-1]))
        funcs = []
        typedefs = []
        for d in decls:
            k = d[0]
            if k == 'ns':
                if in_scope(path + (d[1],)):
                    walk(d[2], path + (d[1],))
            if not active:
                continue
            rel = tuple(path[len(top) - 1:])
            if k == 'class':
                for combo, env in envs_of(d[1]):
                    pyname = d[3] + inst_suffix(combo)
                    if cpp_name(T(d[3], path, combo)) in ignore:
                        continue
                    class_bindings(d, path, combo, env, pyname, ('',) * 0 + tuple(top[1:]), out, use_boost)
            elif k == 'func':
                for combo, env in envs_of(d[1]):
                    funcs.append((d, combo, env))
            elif k == 'enum':
                out.append(('enum', ('module', rel), d[1], '::'.join(path + (d[1],)), tuple(d[3])))
            elif k == 'var':
                out.append(('var', rel, d[2], '::'.join(path + ((d[2],) if d[3] is None else ())) , d[3]))
            elif k == 'typedef':
                typedefs.append(d)
        if active:
            for d in typedefs:
                tt = d[1]
                target, tns = find_template(module, tt[2], tt[3])
                if target is None:
                    continue
                if target[0] == 'class' and target[1] is not None:
                    params = [p for p, _ in target[1][1]]
                    env = dict(zip(params, tt[4]))
                    if cpp_name(T(target[3], tns, tt[4])) in ignore:
                        continue
                    class_bindings(target, tns, tt[4], env, d[2], tuple(top[1:]), out, use_boost)
                elif target[0] == 'fwd':
                    out.append(('class', tuple(path[len(top) - 1:]), d[2], cpp_name(T(target[2][3], tns, tt[4])), None))
            for d, combo, env in funcs:
                a = subst_args(d[4], env, None)
                r = subst_ret(d[2], env, None)
                nm = d[3] + inst_suffix(combo)
                pn = nm + '_' if (keyword.iskeyword(nm) or nm == 'print') else nm
                cal = '::'.join(path + (d[3],)) + ('<' + ','.join(cpp_name(c) for c in combo) + '>' if combo else '')
                out.append(('func', tuple(path[len(top) - 1:]), pn, cal, tuple(cpp_type(x[1]) for x in a),
                            tuple((x[2], x[3]) for x in a), is_void(r)))
    walk(module, ())
    return out
