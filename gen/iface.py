"""M6: reference grammar of the interface dialect (written from DOCS.md, not from the pyparsing
rules): abstract trees, an unparser, a seeded generator with adversarial identifier pools, and the
abstraction of a real parse tree into the same abstract form.

Abstract forms are plain tuples / dicts so that they compare and hash structurally.
  type     = ('T', const, namespaces(tuple), name, targs(tuple of type), mark)   mark in '', '*', '@', '&'
  arg      = ('A', type, name, default|None)
  ret      = type | ('P', type, type)
  template = ('TPL', ((param, None | (typename,...)), ...))      typename = ('T', False, ns, name, targs, '')
"""
import random

BASIC = ['void', 'bool', 'unsigned char', 'char', 'int', 'size_t', 'double', 'float']
ARG_BASIC = ['bool', 'unsigned char', 'char', 'int', 'size_t', 'double']
CLASS_NAMES = ['Pose3', 'Test', 'Thistle', 'Type', 'TT', 'Values', 'A', 'Basis', 'Tt']
NS_POOL = ['gtsam', 'ns1', 'ns2', 'inner', 'std']
IDENTS = ['x', 'y', 'data', 'lambda', 'value', 'a_set_b', 'name', 't', 'print_', 'arg', 'key', 'is', 'T1']
METHOD_NAMES = ['run', 'insert', 'print', 'serialize', 'data', 'async', 'await', 'lambda', 'size', 'constant',
                'at', 'templated', 'svg', 'def', 'update', 'get', 'constructor', 'test']
TPARAMS = ['T', 'U', 'TT', 'ARG', 'POSE']
DEFAULTS = ['0', '-1', '3.14', '"hello, world"', '"a  b |   | "', "'c'", 'gtsam::Pose3()', 'std::vector<double>{1, 2}', 'f(1, (2))',
            'ns::K<int, 2>::value', 'nullptr', 'true', '{}']


def T(name, ns=(), targs=(), const=False, mark=''):
    return ('T', bool(const), tuple(ns), name, tuple(targs), mark)


# ---------------------------------------------------------------- unparse
def up_type(t):
    _, const, ns, name, targs, mark = t
    s = ('const ' if const else '') + '::'.join(list(ns) + [name])
    if targs:
        s += '<' + ', '.join(up_type(a) for a in targs) + '>'
    return s + mark


def up_ret(r):
    if r[0] == 'P':
        return 'pair<%s, %s>' % (up_type(r[1]), up_type(r[2]))
    return up_type(r)


def up_args(args):
    out = []
    for _, t, n, d in args:
        out.append('%s %s' % (up_type(t), n) + (' = ' + d if d is not None else ''))
    return ', '.join(out)


def up_template(tpl):
    if tpl is None:
        return ''
    parts = []
    for p, insts in tpl[1]:
        if insts is None:
            parts.append(p)
        else:
            parts.append('%s = {%s}' % (p, ', '.join(up_type(i) for i in insts)))
    return 'template<%s>\n' % ', '.join(parts)


def up_member(m, ind='  '):
    k = m[0]
    if k == 'ctor':
        return ind + up_template(m[1]).replace('\n', ' ') + '%s(%s);' % (m[2], up_args(m[3]))
    if k == 'method':
        return ind + up_template(m[1]).replace('\n', ' ') + '%s %s(%s)%s;' % (up_ret(m[2]), m[3], up_args(m[4]), ' const' if m[5] else '')
    if k == 'static':
        return ind + up_template(m[1]).replace('\n', ' ') + 'static %s %s(%s);' % (up_ret(m[2]), m[3], up_args(m[4]))
    if k == 'prop':
        return ind + '%s %s%s;' % (up_type(m[1]), m[2], ' = ' + m[3] if m[3] is not None else '')
    if k == 'op':
        return ind + '%s operator%s(%s) const;' % (up_ret(m[1]), m[2], up_args(m[3]))
    if k == 'dunder':
        return ind + '__%s__(%s);' % (m[1], up_args(m[2]))
    if k == 'enum':
        return ind + '%s %s { %s };' % (m[2], m[1], ', '.join(m[3]))
    raise ValueError(k)


def up_decl(d, ind=''):
    k = d[0]
    if k == 'include':
        return ind + '#include <%s>' % d[1]
    if k == 'fwd':
        return ind + ('virtual ' if d[1] else '') + 'class %s%s;' % ('::'.join(list(d[2][2]) + [d[2][3]]),
                                                                    ' : ' + up_type(d[3]) if d[3] else '')
    if k == 'class':
        _, tpl, virt, name, base, members = d
        s = ind + up_template(tpl).replace('\n', '\n' + ind)
        s += ('virtual ' if virt else '') + 'class %s' % name + (' : ' + up_type(base) if base else '') + ' {\n'
        for m in members:
            s += up_member(m, ind + '  ') + '\n'
        return s + ind + '};'
    if k == 'typedef':
        return ind + 'typedef %s %s;' % (up_type(d[1]), d[2])
    if k == 'func':
        return ind + up_template(d[1]).replace('\n', '\n' + ind) + '%s %s(%s);' % (up_ret(d[2]), d[3], up_args(d[4]))
    if k == 'enum':
        return ind + '%s %s { %s };' % (d[2], d[1], ', '.join(d[3]))
    if k == 'var':
        return ind + '%s %s%s;' % (up_type(d[1]), d[2], ' = ' + d[3] if d[3] is not None else '')
    if k == 'ns':
        s = ind + 'namespace %s {\n' % d[1]
        for c in d[2]:
            s += up_decl(c, ind + '  ') + '\n'
        return s + ind + '}'
    raise ValueError(k)


def unparse(module):
    return '\n'.join(up_decl(d) for d in module) + '\n'


# ---------------------------------------------------------------- generator
class Gen:
    def __init__(self, seed=0, depth=2, matlab_safe=False, pybind_safe=True):
        self.r = random.Random(seed)
        self.depth = depth
        self.matlab_safe = matlab_safe
        self.classes = []      # qualified class names declared so far (ns tuple, name)
        self.in_class = False

    def pick(self, xs):
        return self.r.choice(xs)

    def typename(self, depth, tparams=()):
        """a type name without qualifiers (used in template lists, typedefs, bases)"""
        r = self.r.random()
        if r < 0.3:
            return T(self.pick([b for b in ARG_BASIC if ' ' not in b]))
        if r < 0.75 or depth <= 0:
            ns = tuple(self.r.sample(NS_POOL, self.r.randint(0, 2)))
            return T(self.pick(CLASS_NAMES), ns)
        ns = tuple(self.r.sample(NS_POOL, self.r.randint(0, 1)))
        n = self.r.randint(1, 2)
        return T(self.pick(['vector', 'Basis', 'map', 'Container']), ns,
                 [self.typename(depth - 1) for _ in range(n)])

    def type(self, depth=None, tparams=(), allow_void=False, templated_ok=True, marks=True):
        depth = self.depth if depth is None else depth
        r = self.r.random()
        const = self.r.random() < 0.25
        mark = self.pick(['', '', '*', '@', '&']) if marks else ''
        if tparams and r < 0.3:
            p = self.pick(list(tparams))
            if self.r.random() < 0.2:
                return T('Value', (p,), (), const, mark)     # scoped use T::Value
            return T(p, (), (), const, mark)
        if r < 0.45:
            b = self.pick(BASIC if allow_void else ARG_BASIC)
            return T(b, (), (), const and b != 'void', '' if b == 'void' else self.pick(['', '', '&']))
        if r < 0.8 or depth <= 0 or not templated_ok:
            ns = tuple(self.r.sample(NS_POOL, self.r.randint(0, 2)))
            nm = self.pick(CLASS_NAMES + ['This'] if (tparams and self.in_class) else CLASS_NAMES)
            if nm == 'This' and self.r.random() < 0.4:
                return T(self.pick(['Mode', 'Status']), ('This',), (), const, mark)
            return T(nm, (ns if self.r.random() < 0.7 else ()) if nm != 'This' else (), (), const, mark)
        ns = tuple(self.r.sample(NS_POOL, self.r.randint(0, 1)))
        n = self.r.randint(1, 2)
        targs = [self.type(depth - 1, tparams, templated_ok=True) for _ in range(n)]
        return T(self.pick(['vector', 'Basis', 'map', 'optional']), ns, targs, const, mark)

    def args(self, tparams=(), maxn=3, defaults=True):
        n = self.r.randint(0, maxn)
        names = self.r.sample(IDENTS, n)
        out = []
        ndef = self.r.randint(0, n) if defaults and self.r.random() < 0.5 else 0
        for i, nm in enumerate(names):
            d = self.pick(DEFAULTS) if i >= n - ndef else None
            out.append(('A', self.type(tparams=tparams), nm, d))
        return tuple(out)

    def ret(self, tparams=()):
        if self.r.random() < 0.15:
            return ('P', self.type(1, tparams, templated_ok=False), self.type(1, tparams, templated_ok=False))
        return self.type(tparams=tparams, allow_void=True)

    def template(self, with_lists=True, maxp=2, avoid=()):
        pool = [p for p in TPARAMS if p not in avoid]
        n = self.r.randint(1, min(maxp, len(pool)))
        ps = self.r.sample(pool, n)
        out = []
        for p in ps:
            if with_lists:
                k = self.r.randint(1, 3)
                insts = tuple(self.typename(1) for _ in range(k))
                out.append((p, insts))
            else:
                out.append((p, None))
        return ('TPL', tuple(out))

    def klass(self, name, ns_path):
        self.in_class = True
        try:
            return self._klass(name, ns_path)
        finally:
            self.in_class = False

    def _klass(self, name, ns_path):
        tpl = None
        r = self.r.random()
        if r < 0.3:
            tpl = self.template(with_lists=True)
        elif r < 0.4:
            tpl = self.template(with_lists=False)
        tparams = tuple(p for p, _ in tpl[1]) if tpl else ()
        virt = self.r.random() < 0.3
        base = None
        if self.r.random() < 0.3:
            base = self.typename(1) if self.r.random() < 0.3 else T(self.pick(CLASS_NAMES), tuple(self.r.sample(NS_POOL, 1)))
            if base[3] in ARG_BASIC:
                base = T('Base', ('gtsam',))
        members = []
        for _ in range(self.r.randint(0, 2)):
            mt = self.template(True, 1, tparams) if self.r.random() < 0.15 else None
            tp = tparams + (tuple(p for p, _ in mt[1]) if mt else ())
            members.append(('ctor', mt, name, self.args(tp)))
        for _ in range(self.r.randint(0, 3)):
            mt = self.template(True, 1, tparams) if self.r.random() < 0.2 else None
            tp = tparams + (tuple(p for p, _ in mt[1]) if mt else ())
            members.append(('method', mt, self.ret(tp), self.pick(METHOD_NAMES), self.args(tp), self.r.random() < 0.5))
        for _ in range(self.r.randint(0, 2)):
            mt = self.template(True, 1, tparams) if self.r.random() < 0.15 else None
            tp = tparams + (tuple(p for p, _ in mt[1]) if mt else ())
            members.append(('static', mt, self.ret(tp), self.pick(METHOD_NAMES), self.args(tp)))
        for _ in range(self.r.randint(0, 2)):
            members.append(('prop', self.type(tparams=tparams), self.pick(IDENTS), self.pick(DEFAULTS) if self.r.random() < 0.2 else None))
        if self.r.random() < 0.3:
            op = self.pick(['+', '-', '*', '/', '==', '[]', '()', '<<', '+='])
            self_t = T(name)
            if op in ('+', '-') and self.r.random() < 0.4:
                members.append(('op', self_t, op, ()))
            else:
                members.append(('op', self_t, op, (('A', T(name, (), (), True, '&'), 'other', None),)))
        if self.r.random() < 0.2:
            dn = self.pick(['len', 'contains', 'iter'])
            members.append(('dunder', dn, (('A', T('size_t'), 'key', None),) if dn == 'contains' else ()))
        if self.r.random() < 0.25:
            members.append(('enum', self.pick(['Kind', 'Status', 'Verbosity']), self.pick(['enum', 'enum class', 'enum struct']),
                            tuple(self.r.sample(['A', 'B', 'SILENT', 'VALID', 'Dog', 'None_'], self.r.randint(1, 3)))))
        self.r.shuffle(members)
        return ('class', tpl, virt, name, base, tuple(members))

    def decl(self, ns_path, depth):
        r = self.r.random()
        if r < 0.35:
            return self.klass(self.pick(CLASS_NAMES), ns_path)
        if r < 0.5:
            tpl = self.template(True, 2) if self.r.random() < 0.3 else None
            tp = tuple(p for p, _ in tpl[1]) if tpl else ()
            return ('func', tpl, self.ret(tp), self.pick(METHOD_NAMES), self.args(tp))
        if r < 0.58:
            return ('enum', self.pick(['Kind', 'Color', 'Verbosity']), self.pick(['enum', 'enum class', 'enum struct']),
                    tuple(self.r.sample(['Red', 'Green', 'Blue', 'A', 'B'], self.r.randint(1, 3))))
        if r < 0.66:
            return ('var', T(self.pick(ARG_BASIC + ['string']), (), (), self.r.random() < 0.5, ''), self.pick(['kG', 'kOne', 'seed']),
                    self.pick(['-9.81', '1', '"x"', None]))
        if r < 0.72:
            return ('include', self.pick(['gtsam/geometry/Pose3.h', 'vector', 'path/to file.h']))
        if r < 0.78:
            return ('fwd', self.r.random() < 0.3, T(self.pick(CLASS_NAMES), tuple(self.r.sample(NS_POOL, self.r.randint(0, 2)))),
                    T('Base', ('gtsam',)) if self.r.random() < 0.3 else None)
        if r < 0.86:
            tt = self.typename(1)
            if not tt[4]:
                tt = T(tt[3] if tt[3] not in ARG_BASIC else 'Basis', tt[2], (self.typename(0),))
            return ('typedef', tt, self.pick(['Alias', 'BasisDouble', 'Easy']))
        if depth > 0:
            name = self.pick(NS_POOL[:4])
            return ('ns', name, tuple(self.decl(ns_path + (name,), depth - 1) for _ in range(self.r.randint(0, 3))))
        return ('include', 'x.h')

    def module(self, ndecl=4, nsdepth=2):
        return dedupe(tuple(self.decl((), nsdepth) for _ in range(self.r.randint(1, ndecl))))


def dedupe(decls):
    """C++ forbids two entities of the same name in one scope (functions may overload): rename clashes"""
    seen = {}
    out = []
    for d in decls:
        k = d[0]
        name_i = {'class': 3, 'enum': 1, 'var': 2, 'typedef': 2}.get(k)
        if k == 'ns':
            d = ('ns', d[1], dedupe(d[2]))
        if name_i is not None:
            nm = d[name_i]
            if nm in seen:
                seen[nm] += 1
                nm2 = '%s%d' % (nm, seen[nm])
                d = d[:name_i] + (nm2,) + d[name_i + 1:]
                if k == 'class':
                    d = d[:5] + (tuple(('ctor', m[1], nm2, m[3]) if m[0] == 'ctor' else m for m in d[5]),)
                    d = d[:5] + (tuple(_rename_self(m, nm, nm2) for m in d[5]),)
            else:
                seen[nm] = 0
        if k == 'func':
            seen.setdefault(d[3], 0)
        out.append(d)
    return tuple(out)


def _rename_self(m, old, new):
    if m[0] == 'op':
        def rt(t):
            return t[:3] + (new,) + t[4:] if t[0] == 'T' and t[3] == old and not t[2] else t
        return ('op', rt(m[1]), m[2], tuple(('A', rt(a[1]), a[2], a[3]) for a in m[3]))
    return m


# ---------------------------------------------------------------- abstraction of the real parse tree
def _s(x):
    return '' if x is None else str(x)


def abs_typename(tn):
    """gtwrap Typename -> abstract type without qualifiers"""
    return T(_s(tn.name), tuple(tn.namespaces), [abs_typename(i) for i in tn.instantiations])


def abs_type(t):
    from gtwrap.interface_parser.type import TemplatedType
    mark = '*' if t.is_shared_ptr else '@' if t.is_ptr else '&' if t.is_ref else ''
    if isinstance(t, TemplatedType):
        return T(_s(t.typename.name), tuple(t.typename.namespaces), [abs_type(p) for p in t.template_params],
                 bool(t.is_const), mark)
    return T(_s(t.typename.name), tuple(t.typename.namespaces), [abs_typename(i) for i in t.typename.instantiations],
             bool(t.is_const), mark)


def abs_args(al):
    return tuple(('A', abs_type(a.ctype), a.name, a.default) for a in al.list())


def abs_ret(r):
    if r.type2:
        return ('P', abs_type(r.type1), abs_type(r.type2))
    return abs_type(r.type1)


def abs_template(t):
    if not t:
        return None
    return ('TPL', tuple((p, (tuple(abs_typename(i) for i in insts) if insts else None))
                         for p, insts in zip(t.typenames, t.instantiations)))


def abs_enum(e, kind=None):
    return ('enum', e.name, None, tuple(x.name for x in e.enumerators))


def abs_class(c):
    import gtwrap.interface_parser as ip
    members = []
    for m in c.ctors:
        members.append(('ctor', abs_template(m.template), m.name, abs_args(m.args)))
    for m in c.methods:
        members.append(('method', abs_template(m.template), abs_ret(m.return_type), m.name, abs_args(m.args), bool(m.is_const)))
    for m in c.static_methods:
        members.append(('static', abs_template(m.template), abs_ret(m.return_type), m.name, abs_args(m.args)))
    for m in c.properties:
        members.append(('prop', abs_type(m.ctype), m.name, m.default))
    for m in c.operators:
        members.append(('op', abs_ret(m.return_type), m.operator, abs_args(m.args)))
    for m in c.dunder_methods:
        members.append(('dunder', m.name, abs_args(m.args)))
    for m in c.enums:
        members.append(abs_enum(m))
    base = None
    if c.parent_class:
        pc = c.parent_class
        base = abs_type(pc) if hasattr(pc, 'typename') else abs_typename(pc)
    return ('class', abs_template(c.template), bool(c.is_virtual), c.name, base, tuple(members))


def abs_decl(d):
    import gtwrap.interface_parser as ip
    if isinstance(d, ip.Namespace):
        return ('ns', d.name, tuple(abs_decl(c) for c in d.content))
    if isinstance(d, ip.Class):
        return abs_class(d)
    if isinstance(d, ip.Include):
        return ('include', str(d.header))
    if isinstance(d, ip.ForwardDeclaration):
        return ('fwd', bool(d.is_virtual), abs_typename(d.typename), abs_typename(d.parent_type) if d.parent_type else None)
    if isinstance(d, ip.TypedefTemplateInstantiation):
        return ('typedef', abs_typename(d.typename), d.new_name)
    if isinstance(d, ip.GlobalFunction):
        return ('func', abs_template(d.template), abs_ret(d.return_type), d.name, abs_args(d.args))
    if isinstance(d, ip.Enum):
        return abs_enum(d)
    if isinstance(d, ip.Variable):
        return ('var', abs_type(d.ctype), d.name, d.default)
    raise ValueError(type(d))


def abs_module(m):
    return tuple(abs_decl(c) for c in m.content)


def canon_expected(module):
    """what the parse tree is expected to be for a generated module (kind-grouped members, enum kinds
    folded, typedef / base / template lists without qualifiers)"""
    order = {'ctor': 0, 'method': 1, 'static': 2, 'prop': 3, 'op': 4, 'dunder': 5, 'enum': 6}

    def cd(d):
        if d[0] == 'ns':
            return ('ns', d[1], tuple(cd(c) for c in d[2]))
        if d[0] == 'class':
            members = sorted(d[5], key=lambda m: order[m[0]])     # stable: per-kind source order kept
            members = tuple(('enum', m[1], None, m[3]) if m[0] == 'enum' else m for m in members)
            return ('class', d[1], d[2], d[3], d[4], members)
        if d[0] == 'enum':
            return ('enum', d[1], None, d[3])
        return d
    return tuple(cd(d) for d in module)


# ---------------------------------------------------------------- sanitizer: avoid the triggers of known findings
PARAM_RENAME = {'T': 'QA', 'U': 'QB', 'TT': 'QC', 'ARG': 'QD', 'POSE': 'QE'}


def sanitize(module):
    """an equivalent-looking module outside the characterising predicates of the known findings
    (see props/pybind_scope.known_predicates); used for the clean half of the bounded scopes"""
    from . import reference as R

    import zlib

    def ren_type(t, params, depth=0, this_ok=True):
        _, const, ns, name, targs, mark = t
        if ns and 'This' in ns and ns[0] == 'This' and depth <= 1 and len(ns) == 1:
            return t                      # This::X is supported at the top level and one template level down
        if ns and (ns[0] in params or 'This' in ns):
            return T(PARAM_RENAME.get(ns[0], ns[0]) if ns[0] in params else 'double', (), (), const, mark) if ns[0] in params else T('double', (), (), const, mark)
        if params and not targs and name not in params and name not in BASIC and name != 'This' and not (set(ns) & set(params)):
            # look-alike identifiers that merely contain / extend a parameter spelling must never be rewritten
            h = zlib.crc32(('%s|%s|%s' % (name, ns, sorted(params))).encode()) % 9
            p = PARAM_RENAME.get(sorted(params)[0], sorted(params)[0])
            if h == 0:
                return T('Kind', (p + 'ag',), (), const, mark)
            if h == 1:
                return T('Scalar', ('types', 'Vec' + p), (), const, mark)
            if h == 2:
                return T(p + p, (), (), const, mark)
            if h == 3:
                return T(p + 'ype', ns, (), const, mark)
        if not ns and name in params:
            if depth >= 2:
                return T('double', (), (), const, mark)
            return T(PARAM_RENAME.get(name, name), (), (), const, mark)
        if not ns and name == 'This' and depth >= 1:
            return T('double', (), (), const, mark)
        return ('T', const, ns, name, tuple(ren_type(a, params, depth + 1) for a in targs), mark)

    def ren_ret(r, params):
        if r[0] == 'P':
            return ('P', ren_type(r[1], params), ren_type(r[2], params))
        return ren_type(r, params)

    def ren_args(args, params):
        return tuple(('A', ren_type(a[1], params), a[2], a[3]) for a in args)

    def ren_tpl(tpl, plain_lists=False):
        if tpl is None:
            return None
        out = []
        for p, insts in tpl[1]:
            if insts is not None:
                seen = set()
                keep = []
                for i in insts:
                    if plain_lists and i[4]:
                        i = T(i[3], i[2])
                    if R.iname(i) not in seen:
                        seen.add(R.iname(i))
                        keep.append(i)
                insts = tuple(keep)
            out.append((PARAM_RENAME.get(p, p), insts))
        return ('TPL', tuple(out))

    def name_ok(n):
        return n

    def decl(d, path, siblings):
        k = d[0]
        if k == 'ns':
            nm = d[1]
            while nm in siblings:
                nm = nm + 'b'
            siblings.add(nm)
            inner = set()
            return ('ns', nm, tuple(x for x in (decl(c, path + (nm,), inner) for c in d[2]) if x is not None))
        if k == 'class':
            _, tpl, virt, name, base, members = d
            cparams = {p for p, _ in tpl[1]} if tpl else set()
            ms = []
            for m in members:
                if m[0] == 'ctor':
                    mp = cparams | ({p for p, _ in m[1][1]} if m[1] else set())
                    ms.append(('ctor', ren_tpl(m[1]), m[2], ren_args(m[3], mp)))
                elif m[0] in ('method', 'static'):
                    mp = cparams | ({p for p, _ in m[1][1]} if m[1] else set())
                    rest = (m[5],) if m[0] == 'method' else ()
                    ms.append((m[0], ren_tpl(m[1]), ren_ret(m[2], mp), name_ok(m[3]), ren_args(m[4], mp)) + rest)
                elif m[0] == 'prop':
                    ms.append(('prop', ren_type(m[1], cparams), m[2], m[3]))
                elif m[0] == 'op':
                    ms.append(m)
                else:
                    ms.append(m)
            b = ren_type(base, cparams) if base is not None else None
            return ('class', ren_tpl(tpl), virt, name, b, tuple(ms))
        if k == 'func':
            fp = {p for p, _ in d[1][1]} if d[1] else set()
            return ('func', ren_tpl(d[1], plain_lists=True), ren_ret(d[2], fp), name_ok(d[3]), ren_args(d[4], fp))
        if k == 'var':
            return d
        if k == 'typedef':
            return d
        return d

    top = set()
    out = tuple(x for x in (decl(d, (), top) for d in module) if x is not None)

    def fix_typedefs(decls, path):
        res = []
        for d in decls:
            if d[0] == 'ns':
                res.append(('ns', d[1], fix_typedefs(d[2], path + (d[1],))))
            elif d[0] == 'typedef':
                target, tns = R.find_template(out, d[1][2], d[1][3])
                if target is None or target[0] != 'class' or target[1] is None or len(target[1][1]) != len(d[1][4]):
                    continue
                res.append(d)
            else:
                res.append(d)
        return tuple(res)
    return fix_typedefs(out, ())
