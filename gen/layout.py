"""Token streams of generated modules and re-layouts (C12), corruptions (C07)."""
import random
import re

from . import iface

_TOK = re.compile(r'#include <\x01.*?\x02>|\x01.*?\x02|"(?:[^"\\]|\\.)*"|\'(?:[^\'\\]|\\.)*\'|#include|::|<<=|>>=|<<|>>|[-+*/%^&|=!<>]=|\(\)|\[\]|[A-Za-z_]\w*|\d[\w.]*|\S', re.S)
GLUED = {('unsigned', 'char'), ('enum', 'class'), ('enum', 'struct')}     # known finding C12: two-token keywords


def marked_text(module):
    """unparse with default-value texts and include paths wrapped in \\x01..\\x02 (they are single tokens)"""
    saved_args, saved_member, saved_decl = iface.up_args, iface.up_member, iface.up_decl

    def up_args(args):
        out = []
        for _, t, n, d in args:
            out.append('%s %s' % (iface.up_type(t), n) + (' = \x01' + d + '\x02' if d is not None else ''))
        return ', '.join(out)
    iface.up_args = up_args
    try:
        txt = iface.unparse(module)
    finally:
        iface.up_args = saved_args
    # properties / variables with defaults and include paths
    txt = re.sub(r'( = )([^;\x01\n]+)(;)', lambda m: m.group(1) + '\x01' + m.group(2) + '\x02' + m.group(3), txt)
    txt = re.sub(r'#include <([^>]*)>', lambda m: '#include <\x01' + m.group(1) + '\x02>', txt)
    return txt


def tokens(module):
    toks = _TOK.findall(marked_text(module))
    return [t.replace('\x01', '').replace('\x02', '') if '\x01' in t else t for t in toks]


def join(toks, seps):
    out = []
    for i, t in enumerate(toks):
        out.append(t)
        if i < len(seps):
            out.append(seps[i])
    return ''.join(out)


LAYOUTS = [' ', '\n', '\t ', '  \n  ', ' /* { ; class */ ', ' // x; }\n', '\n/* "q" */\n']


def need_space(a, b):
    return bool(re.match(r'\w', a[-1:]) and re.match(r'\w', b[:1]))


def relayouts(toks, rnd, n):
    """n re-layouts: each inserts a random layout element at a random subset of token gaps"""
    base = []
    for a, b in zip(toks, toks[1:]):
        base.append(' ' if need_space(a, b) else '')
    # canonical layout first
    yield join(toks, [s if s else ' ' if False else s for s in base] + [''])
    for _ in range(n):
        seps = []
        for i, (a, b) in enumerate(zip(toks, toks[1:])):
            s = base[i]
            if (a, b) in GLUED:
                seps.append(s if s else '')
                continue
            if rnd.random() < 0.35:
                s = rnd.choice(LAYOUTS)
            seps.append(s)
        yield join(toks, seps + ['\n'])


def corruptions(toks, rnd, n):
    """token-level corruptions: (kind, text)"""
    base = [' ' if need_space(a, b) else ' ' for a, b in zip(toks, toks[1:])] + ['\n']
    out = []
    for _ in range(n):
        k = rnd.choice(['delete', 'dup', 'swap', 'truncate', 'stray', 'unbalance'])
        t = list(toks)
        if len(t) < 3:
            continue
        i = rnd.randrange(len(t) - 1)
        if k == 'delete':
            del t[i]
        elif k == 'dup':
            t.insert(i, t[i])
        elif k == 'swap':
            t[i], t[i + 1] = t[i + 1], t[i]
        elif k == 'truncate':
            t = t[:max(1, i)]
        elif k == 'stray':
            t.insert(i, rnd.choice(['{', '}', '(', ')', '<', '>', ';', ',', '::', 'x']))
        else:
            idx = [j for j, x in enumerate(t) if x in '{}()<>']
            if not idx:
                continue
            del t[rnd.choice(idx)]
        out.append((k, ' '.join(t) + '\n', t))
    # a misspelled constructor (a member `Name(` at statement start whose name is a class name): always out of dialect
    classes = {toks[j + 1] for j in range(len(toks) - 1) if toks[j] == 'class'}
    ctors = [j for j in range(1, len(toks) - 1) if toks[j] in classes and toks[j + 1] == '(' and toks[j - 1] in ('{', ';', '}', '>')]
    for j in rnd.sample(ctors, min(2, len(ctors))):
        t = list(toks)
        t[j] = t[j] + 'x'
        out.append(('misspell-ctor', ' '.join(t) + '\n', t))
    return out
