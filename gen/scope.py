"""Exhaustive small scope of *structured* modules for the generator-side bounded checks.

A module = an ordered choice of up to 3 entities; each entity is a (shape, placement, name) triple.
Shapes are the distinct member mixes the generators treat differently; placements are namespace paths;
names come from a pool with deliberate clashes across namespaces.  The full product is enumerated in the
thorough tier; the quick tier takes a seeded slice of it.
"""
import itertools
import random

CLASS_SHAPES = {
    'plain': "class {N} {{\n  {N}();\n  void run(int x) const;\n}};",
    'virtual': "virtual class {N} {{\n  {N}();\n  {N}(double a, int b = 3);\n  double get() const;\n}};",
    'derived': "virtual class {N} : {BASE} {{\n  {N}(const {Q}& other);\n  void set(double v);\n  static {Q} Create(int n = 1, double s = 2.5);\n}};",
    'props': "class {N} {{\n  {N}();\n  double seed;\n  const int count;\n  {Q}::Kind kind;\n  enum Kind {{ Dog, Cat }};\n  string name = \"n\";\n}};",
    'statics': "class {N} {{\n  static void sv(int q);\n  static pair<double, {Q}> both(const {Q}& a);\n  static {Q} make();\n  void print(string s = \"\") const;\n}};",
    'defaults': "class {N} {{\n  {N}(int a, double b = 1.0, string c = \"x\");\n  void f(const {Q}& p, {Q}* q, {Q}@ r, bool flag = true, size_t n = 0) const;\n  gtsam::Matrix m(const gtsam::Vector& v) const;\n}};",
    'templated': "template<T = {{double, {Q2}}}>\nclass {N} {{\n  {N}(const T& t);\n  T get() const;\n  template<U = {{int, string}}> void put(const U& u, T t);\n  This copy() const;\n}};",
    'serial': "class {N} {{\n  {N}();\n  void serialize() const;\n  void constructor();\n  bool equals(const {Q}& o, double tol = 1e-9) const;\n}};",
    'empty': "class {N} {{\n}};",
    'enumret': "enum {N}Mode {{ Fast, Slow }};\nclass {N} {{\n  {N}();\n  enum Kind {{ Dog, Cat }};\n  {N}Mode mode() const;\n  Kind kind() const;\n  void setBoth({N}Mode m, Kind k = Dog);\n  static {N}Mode Default();\n  static Kind Other(int i);\n}};",
    'vserial': "virtual class {N} {{\n  {N}();\n  void serialize() const;\n  double get() const;\n}};",
    'ops': "class {N} {{\n  {N}();\n  {N} operator+(const {N}& other) const;\n  {N} operator-() const;\n  double operator[](size_t i) const;\n  __len__();\n}};",
}
OTHER_SHAPES = {
    'func': "double {n}(int a, double b = 0.5);\nvoid {n}(const string& s);",
    'tfunc': "template<T = {{double, int}}>\nT {n}Of(const T& x);",
    'enum': "enum class {N}Color {{ Red, Green, Blue }};",
    'var': "const double k{N} = 9.81;",
    'typedef': "template<T> class {N}Box {{ {N}Box(); T v() const; }};\ntypedef {NSQ}{N}Box<double> {N}BoxD;",
    'fwd': "class {N}Fwd;",
    'include': "#include <lib/{N}.h>",
}
PLACEMENTS = [(), ('ns1',), ('ns1', 'ns2'), ('ns2',)]
NAMES = ['A', 'B', 'A']        # the third entity may reuse the first one's simple name (in another namespace)


def entity(shape, place, name, others):
    q = '::'.join(place + (name,))
    nsq = ''.join(p + '::' for p in place)
    base = others[0] if others else 'gtsam::Base'
    q2 = others[-1] if others else 'gtsam::Pose3'
    if shape in CLASS_SHAPES:
        body = CLASS_SHAPES[shape].format(N=name, Q=q, BASE=base, Q2=q2)
    else:
        body = OTHER_SHAPES[shape].format(N=name, n=name.lower() + 'fn', NSQ=nsq)
    return place, body, q


def render(entities):
    """entities: list of (place, body); consecutive entities of the same namespace share one block"""
    out = []
    cur = ()
    for place, body in entities:
        common = 0
        while common < len(cur) and common < len(place) and cur[common] == place[common]:
            common += 1
        for _ in range(len(cur) - common):
            out.append('}')
        for p in place[common:]:
            out.append('namespace %s {' % p)
        cur = place
        out.append(body)
    for _ in cur:
        out.append('}')
    return '\n'.join(out) + '\n'


def all_specs(max_entities=3, class_only=False):
    shapes = list(CLASS_SHAPES) + ([] if class_only else list(OTHER_SHAPES))
    for k in range(1, max_entities + 1):
        for combo in itertools.product(itertools.product(shapes, range(len(PLACEMENTS))), repeat=k):
            names = NAMES[:k]
            # same simple name must not clash inside one namespace
            seen = set()
            ok = True
            for (shape, pi), nm in zip(combo, names):
                key = (pi, nm, shape in CLASS_SHAPES or shape in ('typedef', 'enum', 'fwd'))
                if key in seen:
                    ok = False
                seen.add(key)
            if ok:
                yield tuple((s, pi, nm) for (s, pi), nm in zip(combo, names))


def build(spec):
    ents = []
    qnames = []
    for shape, pi, nm in spec:
        place, body, q = entity(shape, PLACEMENTS[pi], nm, [x for x in qnames])
        ents.append((place, body))
        if shape in CLASS_SHAPES and shape != 'templated':
            qnames.append(q)
    return render(ents)


def core_specs():
    """every shape at every namespace placement on its own: always part of the bounded scope, whatever the seed"""
    return [((shape, pi, 'A'),) for shape in list(CLASS_SHAPES) + list(OTHER_SHAPES) for pi in range(len(PLACEMENTS))]


def sample(n, seed, max_entities=3, class_only=False):
    r = random.Random(seed)
    shapes = list(CLASS_SHAPES) + ([] if class_only else list(OTHER_SHAPES))
    out = []
    tries = 0
    while len(out) < n and tries < n * 20:
        tries += 1
        k = r.choice([1, 2, 2, 3, 3, 3][:max_entities * 2]) if max_entities >= 3 else r.randint(1, max_entities)
        spec = tuple((r.choice(shapes), r.randrange(len(PLACEMENTS)), NAMES[i]) for i in range(k))
        seen = set()
        ok = True
        for shape, pi, nm in spec:
            key = (pi, nm)
            if key in seen:
                ok = False
            seen.add(key)
        if ok:
            out.append(spec)
    return out


# ---------------------------------------------------------------- curated scenarios for the instantiator / pybind oracles
PY_SCENARIOS = [
    # typedef placed before the template's namespace, in another namespace
    "namespace app {\n  typedef geo::Box<geo::Point> PointBox;\n}\nnamespace geo {\n  class Point { Point(); };\n  template<T>\n  class Box {\n    Box(const T& t);\n    T get() const;\n    This copy() const;\n  };\n}\n",
    # typedef nested below the template's namespace
    "namespace geo {\n  namespace deep {\n    typedef geo::Box<double> DBox;\n  }\n  template<T>\n  class Box {\n    Box();\n    T v(const T& t) const;\n  };\n}\n",
    # products: 2x3, 2x2x2, member-level inside class-level
    "template<A1 = {int, double}, B1 = {string, bool, char}>\nclass Pair {\n  Pair(A1 a, B1 b);\n  A1 first() const;\n  template<C1 = {size_t, float}> C1 conv(const B1& b) const;\n  template<C1 = {size_t, float}> static C1 make(A1 a);\n};\ntemplate<X1 = {int, double}, Y1 = {int, double}, Z1 = {int, double}>\nX1 mix(Y1 y, Z1 z);\n",
    # This::X in a class template instantiated several times, plain and one level down
    "namespace ns {\n  class A {};\n  class B {};\n  template<T = {ns::A, ns::B, double}>\n  class Holder {\n    enum Mode { On, Off };\n    Holder(This::Mode m);\n    This::Mode mode() const;\n    static This Create(This::Mode m, const T& t);\n    void setAll(const std::vector<This::Mode>& ms);\n  };\n}\n",
    # look-alike identifiers around parameters T / POSE
    "namespace types { class VecT {}; }\ntemplate<T = {double, int}, POSE = {gtsam::Pose2}>\nclass Uses {\n  Uses(Tag::Kind k, types::VecT::Scalar s, POSE3D::Matrix m, TT t, Type y);\n  T::Value get(const POSE::Jacobian& j) const;\n};\n",
    # function templates in namespaces, multi-argument instantiations, ignore candidates
    "namespace ns {\n  template<T, U>\n  class Pair2 {\n    Pair2(T t, U u);\n  };\n  typedef ns::Pair2<int, double> PairID;\n  template<T = {int, double}>\n  T twice(const T& t);\n  class Plain { Plain(); void f() const; };\n}\n",
]
