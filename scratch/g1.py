import sys; sys.path.insert(0,'/verif')
from gen.iface import *
import gtwrap.interface_parser as ip
ok=bad=err=0
import collections
errs=collections.Counter()
for seed in range(300):
    g=Gen(seed)
    m=g.module()
    txt=unparse(m)
    try:
        tree=ip.Module.parseString(txt)
    except Exception as e:
        err+=1; errs[type(e).__name__+': '+str(e)[:60]]+=1
        if err<=6: print('PARSE ERR',seed,e); print(txt[:600])
        continue
    a=abs_module(tree); x=canon_expected(m)
    if a==x: ok+=1
    else:
        bad+=1
        if bad<=3:
            print('MISMATCH',seed)
            for da,dx in zip(a,x):
                if da!=dx: print(' got',da); print(' exp',dx); break
print(ok,bad,err); print(errs.most_common(8))
