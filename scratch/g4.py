import sys,traceback; sys.path.insert(0,'/verif')
from gen.iface import *
from props.matlab_e2e import generate
seen=set()
for seed in range(400):
    m=Gen(seed).module(); txt=unparse(m)
    try: generate(txt)
    except Exception as e:
        k=type(e).__name__+str(e)[:30]
        if k in seen or 'Cannot find' in k: continue
        seen.add(k); print('=== seed',seed,k); print(txt[:700]); print(''.join(traceback.format_exc().split('\n')[-8:]))
