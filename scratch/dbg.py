import sys; sys.path.insert(0,'/verif')
exec(open('/verif/scratch/t1.py').read().split("res=discharge")[0])
res=discharge([fr]); feasibility([fr])
seen=set()
for r in res:
    k=(r.ob.note,r.verdict)
    if k in seen: continue
    seen.add(k)
    print(r.verdict,r.path_idx,r.ob.kind,r.ob.note[:90])
for r in res:
    if r.verdict!='unsat' and 'wrapper_id == old' in r.ob.note:
        print(r.text); break
