import sys,re,subprocess,time
sys.path.insert(0,'/verif')
from pyvc import smt
t=open('/tmp/helped.smt2').read()
# abstract int->str conversions
def absr(t):
    out=[];i=0
    key='(ite (<= 0 '
    while True:
        j=t.find(key,i)
        if j<0: out.append(t[i:]); break
        # parse the full ite term
        term=smt.split_top(t[j:])[0]
        parts=smt.split_top(term[5:-1])
        if len(parts)==3 and parts[1].startswith('(str.from_int '):
            x=parts[1][len('(str.from_int '):-1]
            out.append(t[i:j]); out.append('(istr %s)'%x); i=j+len(term)
        else:
            out.append(t[i:j+len(key)]); i=j+len(key)
    return ''.join(out)
t2=absr(t).replace('(declare-fun cls (Int) Int)','(declare-fun cls (Int) Int)\n(declare-fun istr (Int) String)')
n0='(vi hv_wrapper_id!17)'
for name,case in [('all','true'),('eq','(= sk!0_v_37 %s)'%n0),('eq1','(= sk!0_v_37 (+ %s 1))'%n0)]:
    tt=t2.replace('(check-sat)','(assert %s)\n(check-sat)'%case)
    open('/tmp/case.smt2','w').write(tt)
    for solver in (['z3-new','-T:10'],['/usr/bin/cvc5','--strings-exp','--tlimit=10000']):
        t0=time.time(); r=subprocess.run(solver+['/tmp/case.smt2'],capture_output=True,text=True)
        print(name,solver[0],r.stdout.strip()[:100],'%.2f'%(time.time()-t0))
