import sys; sys.path.insert(0,'/verif')
from pyvc.extract import Repo
from pyvc.vc import Engine
from pyvc.run import discharge, feasibility
from pyvc import api
from contracts.schema import TREE_SCHEMA
import contracts.common, contracts.matlab_text, contracts.names
import contracts.c05 as c05
repo=Repo()
from contracts.schema import TREE_INVARIANTS
e=Engine(repo,TREE_SCHEMA,api.CONTRACTS,api.SPECS,TREE_INVARIANTS)
e.hook_guards=[c05.GATEWAY]
keys=sys.argv[1:]
frs=[]
for k in keys:
    fr=e.verify_function(k); frs.append(fr)
    print(k,'paths',len(fr.paths),'unsupported:',fr.unsupported)
    if fr.unsupported_trace: print(fr.unsupported_trace[-800:])
res=discharge(frs)
bad=0
for r in res:
    if r.verdict!='unsat':
        bad+=1
        print(r.verdict,r.solver,'%.2f'%r.time,r.func,r.path_idx,r.ob.kind,r.ob.lineno,r.ob.note[:120])
        open('/tmp/fail%d.smt2'%bad,'w').write(r.text)
print('obligations',len(res),'not discharged',bad,'max time %.2f'%max([r.time for r in res] or [0]))
for fr in frs:
    for p in fr.paths[:6]: print('PATH',p.trace[:6],p.outcome,len(p.obligations))
