import sys; sys.path.insert(0,'/verif')
from pyvc.extract import Repo
from pyvc.vc import Engine, Contract
from pyvc.run import discharge, feasibility
from contracts.schema import SCHEMA, MAP_ENTRY, CLS_OR_FN, MEMBER
repo=Repo()
cons={}
cons['MatlabWrapper._update_wrapper_id']=Contract('MatlabWrapper._update_wrapper_id',
  params={'collector_function':'none|tuple[str,%s,str,%s]'%(CLS_OR_FN,MEMBER),'id_diff':'int','function_name':'none|str'},
  returns='int',
  requires=[],
  modifies=['self.wrapper_id','dict(self.wrapper_map)'],
  ensures=['self.wrapper_id == old(self.wrapper_id) + 1', 'result == old(self.wrapper_id)',
    'implies(collector_function is None, dom(self.wrapper_map) == old(dom(self.wrapper_map)) and vals(self.wrapper_map) == old(vals(self.wrapper_map)))',
    'implies(collector_function is not None, dom(self.wrapper_map) == old(dom(self.wrapper_map)).set(old(self.wrapper_id), True))',
    'implies(collector_function is not None, self.wrapper_map[old(self.wrapper_id)][2] == collector_function[2])',
  ])
e=Engine(repo,SCHEMA,cons)
fr=e.verify_function('MatlabWrapper._update_wrapper_id')
print('unsupported:',fr.unsupported); 
if fr.unsupported_trace: print(fr.unsupported_trace)
print(len(fr.paths),'paths')
res=discharge([fr]); feasibility([fr])
for p in fr.paths: print(p.trace,p.outcome,p.feasible,len(p.obligations))
for r in res: print(r.verdict,r.solver,'%.2f'%r.time,r.ob.kind,r.ob.note[:100])
for r in res:
    if r.verdict!='unsat':
        open('/tmp/fail.smt2','w').write(r.text); print(r.output[:500]); break
