import sys; sys.path.insert(0,'/verif')
from gen.iface import *
from props.matlab_e2e import generate, c05_check
seed=int(sys.argv[1])
m=Gen(seed).module(); txt=unparse(m); print(txt)
files,w=generate(txt)
for k,msg in c05_check(files)[:6]: print(k,msg)
for k in sorted(w.wrapper_map): print(k, w.wrapper_map[k][2], w.wrapper_map[k][3])
for p,t in files.items():
    if p.endswith('.m'):
        import re
        for ln in t.split('\n'):
            if 'mod_wrapper(' in ln or re.match(r'\s*function',ln): print(p,'|',ln.strip()[:100])
