import sys,collections; sys.path.insert(0,'/verif')
from gen.iface import *
from props.matlab_e2e import generate, c05_check
ok=0; errs=collections.Counter(); viol=collections.Counter(); ex={}
for seed in range(400):
    m=Gen(seed).module(); txt=unparse(m)
    try: files,w=generate(txt)
    except Exception as e:
        errs[type(e).__name__+':'+str(e)[:50]]+=1; continue
    ok+=1
    for k,msg in c05_check(files):
        viol[k]+=1; ex.setdefault(k,(seed,msg))
print('generated',ok); print(errs.most_common(10)); print(viol); 
for k,v in ex.items(): print(k,v)
