import sys,subprocess,time; sys.path.insert(0,'/verif')
from pyvc.inst import help_text
t=help_text(open('/tmp/c3.smt2').read())
import re
sk=re.findall(r'sk![a-z0-9_]*',t)[0]
n0='(vi %s)'%sorted(set(re.findall(r'hv_wrapper_id![0-9]*',t)),key=lambda x:int(x.split('!')[1]))[0]
def run(tt,label):
    open('/tmp/e.smt2','w').write(tt)
    for solver in (['z3-new','-T:5'],['/usr/bin/cvc5','--strings-exp','--tlimit=5000']):
        t0=time.time()
        try: r=subprocess.run(solver+['/tmp/e.smt2'],capture_output=True,text=True,timeout=8); o=r.stdout.strip()[:60]
        except subprocess.TimeoutExpired: o='TO'
        print(label,solver[0],o,'%.2f'%(time.time()-t0))
eq=t.replace('(check-sat)','(assert (= %s %s))\n(check-sat)'%(sk,n0))
run(eq,'eq')
noq='\n'.join(l for l in eq.split('\n') if not l.startswith('(assert (forall'))
run(noq,'eq-noq')
# goal text
g=[l for l in eq.split('\n') if l.startswith('(assert (not')][0]
print(len(g)); print(g[:3000])
