import sys,subprocess,time; sys.path.insert(0,'/verif')
from pyvc import smt
t=open(sys.argv[1]).read()
lines=t.strip().split('\n')
goal=[l for l in lines if l.startswith('(assert (not ')][-1]
g=goal[len('(assert (not '):-2]
parts=smt.split_top(g[5:-1]) if g.startswith('(and ') else [g]
base='\n'.join(l for l in lines if l is not goal and l!='(check-sat)')
for i,p in enumerate(parts):
    txt=base+'\n(assert (not %s))\n(check-sat)\n'%p
    open('/tmp/part%d.smt2'%i,'w').write(txt)
    for solver in (['z3-new','-T:10'],['/usr/bin/cvc5','--strings-exp','--tlimit=10000']):
        t0=time.time()
        r=subprocess.run(solver+['/tmp/part%d.smt2'%i],capture_output=True,text=True)
        print(i,solver[0],r.stdout.strip()[:40],'%.2f'%(time.time()-t0),p[:80])
