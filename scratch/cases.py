import sys,subprocess,time
t=open('/tmp/helped.smt2').read()
n0='(vi hv_wrapper_id!17)'
for name,case in [('lt','(< sk!0_v_37 %s)'%n0),('eq','(= sk!0_v_37 %s)'%n0),('eq1','(= sk!0_v_37 (+ %s 1))'%n0),('gt','(> sk!0_v_37 (+ %s 1))'%n0)]:
    tt=t.replace('(check-sat)','(assert %s)\n(check-sat)'%case)
    open('/tmp/case.smt2','w').write(tt)
    for solver in (['z3-new','-T:10'],['/usr/bin/cvc5','--strings-exp','--tlimit=10000']):
        t0=time.time(); r=subprocess.run(solver+['/tmp/case.smt2'],capture_output=True,text=True)
        print(name,solver[0],r.stdout.strip()[:100],'%.2f'%(time.time()-t0))
print('--- ground (quantified assumptions dropped)')
lines=[l for l in t.split('\n') if not l.startswith('(assert (forall')]
t2='\n'.join(lines)
for name,case in [('all','true'),('eq','(= sk!0_v_37 %s)'%n0),('eq1','(= sk!0_v_37 (+ %s 1))'%n0)]:
    tt=t2.replace('(check-sat)','(assert %s)\n(check-sat)'%case)
    open('/tmp/case.smt2','w').write(tt)
    for solver in (['z3-new','-T:10'],['/usr/bin/cvc5','--strings-exp','--tlimit=10000']):
        t0=time.time(); r=subprocess.run(solver+['/tmp/case.smt2'],capture_output=True,text=True)
        print(name,solver[0],r.stdout.strip()[:100],'%.2f'%(time.time()-t0))
