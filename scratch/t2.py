import sys; sys.path.insert(0,'/verif')
from pyvc.extract import Repo
from pyvc.vc import Engine
from pyvc.run import discharge, feasibility
from pyvc import api
from contracts.schema import SCHEMA
import contracts.common, contracts.matlab_text
import contracts.c05 as c05
repo=Repo()
e=Engine(repo,SCHEMA,api.CONTRACTS,api.SPECS)
e.hook_guards=[c05.GATEWAY]
keys=sys.argv[1:] or ['MatlabWrapper._update_wrapper_id','MatlabWrapper.wrap_class_deconstructor']
frs=[]
for k in keys:
    fr=e.verify_function(k); frs.append(fr)
    print(k,'paths',len(fr.paths),'unsupported:',fr.unsupported)
    if fr.unsupported_trace: print(fr.unsupported_trace[-1500:])
res=discharge(frs); feasibility(frs)
for fr in frs:
    for p in fr.paths: print(fr.key.split('.')[-1],p.trace,p.outcome,p.feasible,len(p.obligations))
bad=0
for r in res:
    if r.verdict!='unsat':
        bad+=1
        print(r.verdict,r.solver,'%.2f'%r.time,r.func,r.path_idx,r.ob.kind,r.ob.note[:110])
        open('/tmp/fail%d.smt2'%bad,'w').write(r.text)
print('obligations',len(res),'not discharged',bad,'max time %.2f'%max([r.time for r in res] or [0]))
for fr in frs:
    for p in fr.paths:
        for ob in p.obligations:
            if 'TypeError' in ob.note: print(ob.note, ob.lineno, [a for a,k in ob.assumptions if k=='pc'][-5:])
for r in sorted(res,key=lambda r:-r.time)[:5]: print('SLOW %.2f'%r.time,r.solver,r.func,r.ob.note[:80])
for r in res:
    if 'preserved: c05_inv(self) [conjunct 3]' in r.ob.note: open('/tmp/c3.smt2','w').write(r.text)
for r in res:
    if r.verdict!='unsat':
        pcs=[a for a,k in r.ob.assumptions if k in('pc','requires')]
        print('PC',pcs[:12]); print('GOAL',r.ob.goal[:300]); break
