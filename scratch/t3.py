import sys; sys.path.insert(0,'/verif')
exec(open('/verif/scratch/t2.py').read().split("keys=sys.argv")[0])
import pyvc.evalexpr as ee
orig=e.binop
def dbg(op,a,b,node):
    if 'global' in (a.kind,b.kind):
        import traceback; traceback.print_stack(limit=12)
        import ast; print('BINOP',a,b,ast.dump(node)[:300]); print(sorted(e.st.env))
    return orig(op,a,b,node)
e.binop=dbg
e.verify_function('MatlabWrapper.wrap_class_deconstructor')
