import sys; sys.path.insert(0,"/verif")
from pyvc.extract import Repo
from pyvc.vc import Engine
from pyvc.run import discharge
from pyvc import api
from contracts.schema import TREE_SCHEMA
import importlib
mods=sys.argv[1].split(',')
for m in mods: importlib.import_module(m)
repo=Repo()
from contracts.schema import TREE_INVARIANTS
e=Engine(repo,TREE_SCHEMA,api.CONTRACTS,api.SPECS,TREE_INVARIANTS)
frs=[]
for k in [a for a in sys.argv[2:] if a != "-v"]:
    fr=e.verify_function(k); frs.append(fr)
    print(k,'paths',len(fr.paths),'unsupported:',fr.unsupported)
    if fr.unsupported_trace and '-v' in sys.argv: print(fr.unsupported_trace[-6000:])
res=discharge(frs)
bad=0
for r in res:
    if r.verdict!='unsat':
        bad+=1
        print(r.verdict,r.solver,'%.2f'%r.time,r.func,r.path_idx,r.ob.kind,r.ob.lineno,r.ob.note[:120])
        open('/tmp/fail%d_%s.smt2'%(bad,r.verdict),'w').write(r.text)
print('obligations',len(res),'not discharged',bad,'max time %.2f'%max([r.time for r in res] or [0]))
import collections
fails=[r for r in res if r.verdict!='unsat']
print(collections.Counter((r.verdict, tuple(t for t in fr.paths[r.path_idx].trace if 'if@' in t)) for r in fails for fr in frs if fr.key==r.func).most_common(20))
