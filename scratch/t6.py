import sys; sys.path.insert(0,"/verif")
from pyvc.extract import Repo
from pyvc.vc import Engine
from pyvc.run import discharge
from pyvc import api
from contracts.schema import SCHEMA
import importlib
mods=sys.argv[1].split(',')
for m in mods: importlib.import_module(m)
repo=Repo()
e=Engine(repo,SCHEMA,api.CONTRACTS,api.SPECS,{})
frs=[]
for k in sys.argv[2:]:
    if k=='-v': continue
    fr=e.verify_function(k); frs.append(fr)
    print(k,'paths',len(fr.paths),'unsupported:',fr.unsupported)
    if fr.unsupported_trace and '-v' in sys.argv: print(fr.unsupported_trace[-1500:])
res=discharge(frs)
bad=0
for r in res:
    if r.verdict!='unsat':
        bad+=1
        print(r.verdict,r.solver,'%.2f'%r.time,r.func,r.path_idx,r.ob.kind,r.ob.lineno,r.ob.note[:140])
        open('/tmp/fail%d_%s.smt2'%(bad,r.verdict),'w').write(r.text)
print('obligations',len(res),'not discharged',bad,'max time %.2f'%max([r.time for r in res] or [0]))
