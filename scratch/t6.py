import sys; sys.path.insert(0,'/verif')
import pyvc.state as S, traceback
orig=S.State.bump
def b(self,what):
    print('BUMP',what); traceback.print_stack(limit=6)
    return orig(self,what)
S.State.bump=b
sys.argv=['x','contracts.names','Typename.to_cpp']
exec(open('/verif/scratch/t5.py').read().split('res=discharge')[0])
