import sys,subprocess,time; sys.path.insert(0,'/verif')
from pyvc.inst import help_text
t=help_text(open(sys.argv[1]).read())
open('/tmp/helped.smt2','w').write(t)
for solver in (['z3-new','-T:20'],['/usr/bin/cvc5','--strings-exp','--tlimit=20000']):
    t0=time.time(); r=subprocess.run(solver+['/tmp/helped.smt2'],capture_output=True,text=True)
    print(solver[0],r.stdout.strip()[:200],'%.2f'%(time.time()-t0))
