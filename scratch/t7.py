import sys; sys.path.insert(0,'/verif')
import pyvc.values as V, traceback
class PI(Exception): pass
orig_init=V.PathInfeasible.__init__
def init(self,*a):
    traceback.print_stack(limit=14); orig_init(self,*a)
V.PathInfeasible.__init__=init
sys.argv=['x','MatlabWrapper.wrap_instantiated_class']
exec(open('/verif/scratch/t4.py').read().split('res=discharge')[0])
